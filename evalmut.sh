#!/bin/bash
# usage: evalmut.sh <patch.diff> <Cxx> [Cyy ...]   -- runs quick checks against a seeded change in a scratch worktree
# (never touches /repo's working tree or /verif's evidence)
set -uo pipefail
PATCH=$1; shift
WT=${EVAL_WT:-/tmp/wt-eval}
VE=${EVAL_VERIF:-/tmp/verif-eval}
TIER=${EVAL_TIER:-quick}
if [ ! -d "$WT" ]; then git -C /repo worktree add -q --detach "$WT" HEAD; fi
git -C "$WT" checkout -q --detach "$(git -C /repo rev-parse HEAD)" 2>/dev/null
git -C "$WT" reset -q --hard && git -C "$WT" clean -fdq; rm -f /tmp/apply-$$.log
# pending (uncommitted) changes of /repo are part of the tree under evaluation
git -C /repo diff > /tmp/pending-$$.diff
if [ -s /tmp/pending-$$.diff ]; then git -C "$WT" apply /tmp/pending-$$.diff || { echo "cannot apply pending /repo diff"; exit 3; }; fi
rm -f /tmp/pending-$$.diff
if [ "$PATCH" != "none" ]; then
  if ! git -C "$WT" apply --3way "$PATCH" 2>/tmp/apply-$$.log; then
    if ! (cd "$WT" && patch -p1 --no-backup-if-mismatch < "$PATCH" >/tmp/apply-$$.log 2>&1); then echo "PATCH-DOES-NOT-APPLY"; cat /tmp/apply-$$.log | tail -5; exit 3; fi
  fi
fi
mkdir -p "$VE"
rsync -a --delete --exclude .git --exclude replays --exclude evidence /verif/ "$VE"/
mkdir -p "$VE/replays" "$VE/evidence"
for P in "$@"; do
  out=$(VERIF_DIR="$VE" VERIF_REPO="$WT" "$VE/run.sh" "$P" "$TIER" 2>&1); rc=$?
  echo "== $P rc=$rc"; echo "$out" | grep -E "VIOLATION|kind=|KNOWN|BUILD|MACHINERY|^C[0-9]+ " | cut -c1-260 | head -8
done
git -C "$WT" reset -q --hard && git -C "$WT" clean -fdq; rm -f /tmp/apply-$$.log
