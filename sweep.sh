#!/bin/bash
# usage: sweep.sh <seed> <tier> [Cxx ...]   — runs checks from a scratch copy of /verif (evidence of /verif untouched)
# Prints one line per check; any rc!=0 or VIOLATION line on the unchanged tree is a defect of the machinery or a new finding.
SEED=$1; TIER=$2; shift 2
HERE=$(cd "$(dirname "$0")" && pwd)
DST=/var/tmp/verif-sweep-$SEED-$TIER${SWEEP_TAG:+-$SWEEP_TAG}
rm -rf "$DST"; mkdir -p "$DST"
rsync -a --exclude build --exclude .git "$HERE"/ "$DST"/
cd "$DST" && ./setup.sh >/dev/null 2>&1
[ $# -eq 0 ] && set -- C01 C02 C03 C04 C05 C06 C07 C08 C09 C10 C11 C12 C13 C14 C15 C16 C17 C18 C19 C20
for p in "$@"; do
  s=$(date +%s)
  out=$(VERIF_SEED=$SEED ./run.sh $p $TIER 2>&1); rc=$?
  echo "== $p seed=$SEED tier=$TIER rc=$rc $(( $(date +%s) - s ))s viol=$(echo "$out" | grep -c '^VIOLATION') :: $(echo "$out" | grep -E "^$p (quick|thorough)" | tail -1)"
  [ $rc -ne 0 ] && echo "$out" | grep -E "VIOLATION|MACHINERY|kind=" | head -20
done
rm -rf "$DST/build"
