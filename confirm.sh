#!/bin/bash
# usage: confirm.sh <mutdir> <demo-dest-pkg-dir> <run-regex> [extra test pkgs...]
# Confirms a seeded change in a scratch worktree: builds, existing tests of the touched package(s) pass,
# the demonstration fails with the change and passes without it.
set -uo pipefail
MD=$1; DEST=$2; RUN=$3; shift 3
WT=${CONF_WT:-/tmp/wt-confirm}
export GOFLAGS=-mod=mod GOPROXY=off
if [ ! -d "$WT" ]; then git -C /repo worktree add -q --detach "$WT" ${CONF_BASE:-f91f59d}; fi
git -C "$WT" reset -q --hard && git -C "$WT" clean -fdq
git -C "$WT" checkout -q --detach ${CONF_BASE:-f91f59d}
git -C "$WT" apply "$MD/patch.diff" || { echo "patch does not apply on the agents' base commit"; exit 3; }
cd "$WT"
go build ./... || { echo "BUILD FAILS"; exit 3; }
echo "build ok"
# existing tests (without the demo)
for p in "$@"; do
  if go test -vet=off -count=1 -timeout 90m "$p" >/tmp/confirm-$$.log 2>&1; then echo "existing tests ok: $p"; else echo "EXISTING TESTS FAIL: $p"; tail -15 /tmp/confirm-$$.log; fi
done
cp "$MD"/*_test.go "$DEST"/ 2>/dev/null
if go test -vet=off -count=1 -timeout 30m -run "$RUN" "./$DEST" >/tmp/confirm-$$.log 2>&1; then echo "DEMO PASSES WITH CHANGE (bad)"; else echo "demo fails with change (good)"; fi
git -C "$WT" checkout -q -- . 
if go test -vet=off -count=1 -timeout 30m -run "$RUN" "./$DEST" >/tmp/confirm-$$.log 2>&1; then echo "demo passes without change (good)"; else echo "DEMO FAILS WITHOUT CHANGE (bad)"; tail -15 /tmp/confirm-$$.log; fi
git -C "$WT" reset -q --hard && git -C "$WT" clean -fdq
rm -f /tmp/confirm-$$.log
