#!/bin/bash
# Run once after a fresh restore, offline: warms the Go build cache and builds
# both harness binaries from the files on disk.
set -euo pipefail
cd "$(dirname "$0")"
export GOFLAGS=-mod=mod GOPROXY=off
mkdir -p build evidence replays
./build.sh
./build.sh race
if [ -d tools/lincheck ]; then
  (cd tools/lincheck && GOFLAGS=-mod=mod GOPROXY=off GOTOOLCHAIN=local go build -o ../../build/lincheck . ) || echo "lincheck build failed (C17 porcupine pass will be skipped and reported)"
fi
echo setup ok
