#!/bin/bash
# usage: run.sh <Cxx> <quick|thorough> [--replay file]
# Rebuilds the harness from /repo's working tree, runs the check, writes evidence/<Cxx>.json.
set -uo pipefail
VERIF=${VERIF_DIR:-$(cd "$(dirname "$0")" && pwd)}
PROP=$1; TIER=${2:-quick}; shift; shift || true
SEED=${VERIF_SEED:-1}
TIER=${VERIF_TIER_OVERRIDE:-$TIER}
cd "$VERIF"
if [ -d /dev/shm ] && [ -w /dev/shm ]; then WORK=$(mktemp -d /dev/shm/verif-run-XXXXXX); else WORK=$(mktemp -d /var/tmp/verif-run-XXXXXX); fi
trap 'rm -rf "$WORK"' EXIT
if ! "$VERIF/build.sh" >"$WORK/build.log" 2>&1; then
  echo "BUILD-FAILED (harness does not compile against /repo working tree)"; tail -40 "$WORK/build.log"; exit 2
fi
RACEARGS=()
if grep -q "^$PROP\$" "$VERIF/race_checks.txt" 2>/dev/null; then
  if "$VERIF/build.sh" race >"$WORK/build-race.log" 2>&1; then
    RACEARGS=(-racebin "$VERIF/build/verifcheck-race")
  else
    echo "RACE-BUILD-FAILED"; tail -20 "$WORK/build-race.log"; exit 2
  fi
fi
if [ "${1:-}" = "--replay" ]; then
  exec "$VERIF/build/verifcheck" -prop "$PROP" -tier "$TIER" -seed "$SEED" -verif "$VERIF" -work "$WORK" -replay "$2"
fi
"$VERIF/build/verifcheck" -prop "$PROP" -tier "$TIER" -seed "$SEED" -verif "$VERIF" -work "$WORK" "${RACEARGS[@]}"
rc=$?
exit $rc
