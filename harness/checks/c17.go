package checks

import (
	"encoding/json"
	"fmt"
	"github.com/gittuf/gittuf/internal/verifharness/keys"
	"os"
	"os/exec"
	"path/filepath"
	"strings"
	"sync"

	"github.com/gittuf/gittuf/internal/verifharness/fw"
	"github.com/gittuf/gittuf/internal/verifharness/monitor"
	"github.com/gittuf/gittuf/internal/verifharness/scen"
	"github.com/gittuf/gittuf/pkg/githash"
	"github.com/gittuf/gittuf/pkg/rsl"
)

// C17 — concurrent writers cannot corrupt the log.
//
// (i)  deterministic scheduler: 2-3 recording operations run as goroutines on
//      one in-memory store; every Storer call blocks until the controller
//      grants it; all schedules with <= P pre-emptions are enumerated.
// (ii) real git: the same operations as truly concurrent goroutines with their
//      own gitinterface.Repository handles (git sub-processes race for real),
//      also under the race detector.
// Oracle: independent walker (single-parent chain, consecutive numbers, no
// number twice); every operation that returned nil has its entry exactly once,
// every failed one none; rsl.GetFirstEntry walks the chain; and porcupine over
// the recorded call/return history against the sequential numbered-log model.

func init() {
	fw.Register(&fw.Check{
		ID:    "C17",
		Level: "exploration",
		Rule: "(i) all interleavings at Storer-call granularity with <= P pre-emptions (quick P=2 with 2 clients, thorough P=3 with 2 and P=2 with 3 clients) of operation tuples drawn from {reference entry, annotation, State.Commit + staging entry} on one in-memory repository, enumerated depth-first by a deterministic scheduler; (ii) rounds of the same tuples as truly concurrent goroutines on one real git repository. " +
			"distinct = (operation tuple, schedule); non-trivial = the schedule switches clients at least once before the last operation finishes",
		Assumptions: []string{
			"memstore's Commit is read-tip / create / compare-and-set like gitinterface.Repository.Commit; interleavings inside one Storer call are only exercised by the real-git rounds",
			"porcupine (tools/lincheck) checks the histories the shards recorded; a checker timeout is inconclusive",
		},
		MinNontrivial: 100,
		Exhaustive: func(tier string) (bool, string) {
			if tier == "thorough" {
				return true, "all schedules with <= 3 pre-emptions for every pair, <= 2 for every triple of operations"
			}
			return true, "all schedules with <= 2 pre-emptions for every pair of operations"
		},
		Run:     runC17,
		RaceRun: raceC17,
		Post:    postC17,
		Replay:  replayC17,
	})
}

type c17Result struct {
	Err    string `json:"err,omitempty"`
	Number uint64 `json:"number"`
	Call   int64  `json:"call"`
	Ret    int64  `json:"ret"`
}

type c17Case struct {
	Ops      []string `json:"ops"`
	Schedule []int    `json:"schedule"`
	Trace    []string `json:"trace,omitempty"`
}

// one client operation; returns the number assigned to its (last) entry
func c17RunOp(kind string, client int, b scen.Backend, base []githash.Hash) (uint64, error) {
	switch kind {
	case "ref-key":
		// the developer-mode writer: signs with a provided key (CommitUsingSpecificKey)
		e := rsl.NewReferenceEntry(fmt.Sprintf("refs/heads/c%d", client), base[0])
		err := e.CommitUsingSpecificKey(b, keys.Get("k1").PEM)
		return e.Number, err
	case "ref":
		e := rsl.NewReferenceEntry(fmt.Sprintf("refs/heads/c%d", client), base[0])
		err := e.Commit(b, false)
		return e.Number, err
	case "annot":
		a := rsl.NewAnnotationEntry([]githash.Hash{base[1]}, true, fmt.Sprintf("ann-c%d", client))
		err := a.Commit(b, false)
		return a.Number, err
	case "staging":
		st, err := polShape{Main: []string{"k1", fmt.Sprintf("k%d", 2+client)}, MainThr: 1, Rel: []string{"k1"}, RelThr: 1}.build().BuildState()
		if err != nil {
			return 0, err
		}
		return 0, st.Commit(b, fmt.Sprintf("stage c%d\n", client), true, false)
	}
	return 0, fmt.Errorf("unknown op")
}

func c17Base() (*scen.Mem, []githash.Hash) {
	b := scen.NewMem()
	c0, _ := b.CommitFiles(map[string]string{"f": "0"}, nil, "c0", nil)
	ids := []githash.Hash{c0}
	for i := 0; i < 2; i++ {
		id, err := scen.RecordEntry(b, "refs/heads/base", c0, "")
		if err != nil {
			panic(err)
		}
		ids = append(ids, id)
	}
	b.SetSigner(nil)
	return b, ids
}

type c17Step struct {
	Chosen   int
	Runnable []int
}

// c17Exec runs one schedule (prefix, then default policy) and returns the
// steps taken, per-client results and the final store.
func c17Exec(ops []string, prefix []int) ([]c17Step, []c17Result, *scen.Mem, []monitor.Call, error) {
	rsl.VerifResetCache()
	base, ids := c17Base()
	n := len(ops)
	sch := monitor.NewScheduler(n)
	results := make([]c17Result, n)
	var wg sync.WaitGroup
	for i := range ops {
		wg.Add(1)
		go func(i int) {
			defer wg.Done()
			st := monitor.Wrap(base, i, sch.Hook())
			results[i].Call = sch.Now()
			num, err := c17RunOp(ops[i], i, st, ids)
			results[i].Ret = sch.Now()
			results[i].Number = num
			if err != nil {
				results[i].Err = err.Error()
			}
			sch.Finish(i)
		}(i)
	}
	steps := []c17Step{}
	last := -1
	for {
		run, err := sch.Runnable()
		if err != nil {
			return nil, nil, nil, nil, err
		}
		if len(run) == 0 {
			break
		}
		var choice int
		if len(steps) < len(prefix) {
			choice = prefix[len(steps)]
			ok := false
			for _, r := range run {
				if r == choice {
					ok = true
				}
			}
			if !ok {
				return nil, nil, nil, nil, fmt.Errorf("schedule not replayable: client %d not runnable at step %d", choice, len(steps))
			}
		} else {
			choice = run[0]
			for _, r := range run {
				if r == last {
					choice = last
				}
			}
		}
		steps = append(steps, c17Step{Chosen: choice, Runnable: run})
		last = choice
		sch.Grant(choice)
	}
	wg.Wait()
	return steps, results, base, sch.Trace, nil
}

func c17Preemptions(steps []c17Step, upto int, alt int) int {
	// number of pre-emptions in steps[:upto] followed by choosing alt at position upto
	p := 0
	for i := 1; i <= upto; i++ {
		prev := steps[i-1].Chosen
		cur := alt
		run := steps[i].Runnable
		if i < upto {
			cur = steps[i].Chosen
		}
		if cur != prev {
			for _, r := range run {
				if r == prev {
					p++
				}
			}
		}
	}
	return p
}

func c17Enumerate(c *fw.Ctx, ops []string, maxPre int, idx *int, hist *os.File) {
	var rec func(prefix []int)
	rec = func(prefix []int) {
		steps, results, store, trace, err := c17Exec(ops, prefix)
		if err != nil {
			c.Eval(1)
			c.Inconclusive("scheduler: " + trunc(err.Error(), 60))
			return
		}
		sched := make([]int, len(steps))
		for i, s := range steps {
			sched[i] = s.Chosen
		}
		c17Judge(c, ops, sched, results, store, trace, hist, 2)
		for i := len(prefix); i < len(steps); i++ {
			for _, alt := range steps[i].Runnable {
				if alt == steps[i].Chosen {
					continue
				}
				if c17Preemptions(steps, i, alt) > maxPre {
					continue
				}
				np := append(append([]int{}, sched[:i]...), alt)
				rec(np)
			}
		}
	}
	// shard by operation tuple
	mine := c.Mine(*idx)
	*idx++
	if !mine {
		return
	}
	rec(nil)
}

func c17Judge(c *fw.Ctx, ops []string, sched []int, results []c17Result, store *scen.Mem, trace []monitor.Call, hist *os.File, initLen uint64) {
	c.Eval(1)
	switches := 0
	for i := 1; i < len(sched); i++ {
		if sched[i] != sched[i-1] {
			switches++
		}
	}
	tr := []string{}
	for _, t := range trace {
		tr = append(tr, fmt.Sprintf("c%d:%s(%s)", t.Client, t.Method, strings.TrimPrefix(t.Arg, "refs/gittuf/")))
	}
	cs := c17Case{Ops: ops, Schedule: sched, Trace: tr}
	if switches >= 2 {
		c.Nontrivial(fw.Hash(ops, sched))
	}
	c.SetAdd("schedules", fw.Hash(ops, sched))
	shape := c17Shape(trace)
	log, werr := walkLogMem(store.Store)
	if werr != nil {
		kind := "log-corrupt"
		if strings.Contains(werr.Error(), "has number") || strings.Contains(werr.Error(), "carry number") {
			kind = "numbering-broken"
		}
		c.Violation(kind, map[string]string{"shape": shape}, fmt.Sprintf("after concurrent %v under schedule %v: %v", ops, sched, werr), cs)
	} else {
		// every reader can walk it
		if _, _, err := rsl.GetFirstEntry(store); err != nil {
			c.Violation("reader-cannot-walk", map[string]string{"shape": shape}, "rsl.GetFirstEntry fails on the resulting log: "+err.Error(), cs)
		}
	}
	// exactly-once / no-trace
	if werr == nil || strings.Contains(werr.Error(), "number") {
		raw := c17RawEntries(store)
		for i, r := range results {
			count := 0
			for _, e := range raw {
				switch ops[i] {
				case "ref":
					if e.Kind == "reference" && e.Ref == fmt.Sprintf("refs/heads/c%d", i) {
						count++
					}
				case "annot":
					if e.Kind == "annotation" && e.Msg == fmt.Sprintf("ann-c%d", i) {
						count++
					}
				case "staging":
					if e.Kind == "reference" && e.Ref == "refs/gittuf/policy-staging" {
						count++ // counted across clients below
					}
				}
			}
			if ops[i] == "staging" {
				continue
			}
			if r.Err == "" && count != 1 {
				c.Violation("acknowledged-entry-missing-or-duplicated", map[string]string{"count": fmt.Sprint(count), "op": ops[i]}, fmt.Sprintf("client %d (%s) returned nil but its entry occurs %d times", i, ops[i], count), cs)
			}
			if r.Err != "" && count != 0 {
				c.Violation("failed-operation-left-entry", map[string]string{"op": ops[i]}, fmt.Sprintf("client %d (%s) failed (%s) but its entry is in the log", i, ops[i], r.Err), cs)
			}
		}
		okStaging, staged := 0, 0
		for i, r := range results {
			if ops[i] == "staging" && r.Err == "" {
				okStaging++
			}
		}
		for _, e := range raw {
			if e.Kind == "reference" && e.Ref == "refs/gittuf/policy-staging" {
				staged++
			}
		}
		if staged != okStaging {
			c.Violation("acknowledged-entry-missing-or-duplicated", map[string]string{"count": fmt.Sprint(staged), "op": "staging"}, fmt.Sprintf("%d staging commits returned nil, %d staging entries in the log", okStaging, staged), cs)
		}
	}
	_ = log
	// history for porcupine
	if hist != nil {
		type hop struct {
			Client int    `json:"client"`
			Call   int64  `json:"call"`
			Ret    int64  `json:"ret"`
			OK     bool   `json:"ok"`
			Number uint64 `json:"number"`
		}
		h := struct {
			ID   string `json:"id"`
			Init uint64 `json:"init"`
			Ops  []hop  `json:"ops"`
		}{ID: fmt.Sprintf("%v|%v|%s", ops, sched, shape), Init: initLen}
		complete := true
		for i, r := range results {
			if ops[i] == "staging" {
				complete = false // number not reported by the operation
				continue
			}
			h.Ops = append(h.Ops, hop{Client: i, Call: r.Call, Ret: r.Ret, OK: r.Err == "", Number: r.Number})
		}
		if complete {
			b, _ := json.Marshal(h)
			hist.Write(append(b, '\n'))
		}
	}
	if len(sched)%7 == 0 {
		c.Sample(map[string]any{"ops": ops, "schedule": sched, "results": results, "log_entries": len(log)})
	}
}

type c17Raw struct {
	Kind, Ref, Msg string
}

// c17RawEntries walks parents without any invariant check.
func c17RawEntries(store *scen.Mem) []c17Raw {
	out := []c17Raw{}
	cur, err := store.GetReference(rsl.Ref)
	if err != nil {
		return out
	}
	for i := 0; i < 10000; i++ {
		cm, err := store.RawCommit(cur)
		if err != nil {
			break
		}
		w, perr := parseWalked(cur.String(), cm.Message, len(cm.Parents))
		if perr == nil {
			msg := ""
			if j := strings.Index(cm.Message, "-----BEGIN MESSAGE-----\n"); j >= 0 {
				body := cm.Message[j+len("-----BEGIN MESSAGE-----\n"):]
				if k := strings.Index(body, "\n-----END"); k >= 0 {
					body = body[:k]
				}
				msg = decodeB64(strings.ReplaceAll(body, "\n", ""))
			}
			out = append(out, c17Raw{Kind: w.Kind, Ref: w.Ref, Msg: msg})
		}
		if len(cm.Parents) == 0 {
			break
		}
		cur = cm.Parents[0]
	}
	return out
}

// c17RawEntriesGit lists the log of a real repository without judging it
// (first-parent walk over the raw commit messages).
func c17RawEntriesGit(g *scen.Git) []c17Raw {
	out := []c17Raw{}
	txt, err := g.Run(nil, nil, "log", "--first-parent", "--format=%H%x00%P%x00%B%x01", rsl.Ref)
	if err != nil {
		return out
	}
	for _, rec := range strings.Split(txt, "\x01") {
		rec = strings.TrimLeft(rec, "\n")
		parts := strings.SplitN(rec, "\x00", 3)
		if len(parts) != 3 {
			continue
		}
		w, perr := parseWalked(parts[0], parts[2], len(strings.Fields(parts[1])))
		if perr != nil {
			continue
		}
		msg := ""
		if j := strings.Index(parts[2], "-----BEGIN MESSAGE-----\n"); j >= 0 {
			body := parts[2][j+len("-----BEGIN MESSAGE-----\n"):]
			if k := strings.Index(body, "\n-----END"); k >= 0 {
				body = body[:k]
			}
			msg = decodeB64(strings.ReplaceAll(body, "\n", ""))
		}
		out = append(out, c17Raw{Kind: w.Kind, Ref: w.Ref, Msg: msg})
	}
	return out
}

// c17GitShim puts a wrapper named git first on PATH. The wrapper sleeps for
// $VERIF_GIT_SHIM_DELAY seconds before every `git update-ref`, which widens the
// window between a writer reading a reference and updating it (the suspension
// point between two git processes of one storage call) so that concurrent
// writers reliably overlap there. Without the variable it execs git at once.
func c17GitShim(c *fw.Ctx) error {
	real, err := exec.LookPath("git")
	if err != nil {
		return err
	}
	dir := c.Scratch("c17-shim")
	if err := os.MkdirAll(dir, 0o755); err != nil {
		return err
	}
	script := "#!/bin/bash\nif [ -n \"$VERIF_GIT_SHIM_DELAY\" ]; then for a in \"$@\"; do if [ \"$a\" = update-ref ]; then sleep \"$VERIF_GIT_SHIM_DELAY\"; break; fi; done; fi\nexec " + real + " \"$@\"\n"
	if err := os.WriteFile(filepath.Join(dir, "git"), []byte(script), 0o755); err != nil {
		return err
	}
	return os.Setenv("PATH", dir+":"+os.Getenv("PATH"))
}

// c17Shape classifies the interleaving: "stale-number-read" when some client
// read the log tip for numbering before another client's commit to the log and
// committed after it.
func c17Shape(trace []monitor.Call) string {
	firstRead := map[int]int{}
	commitAt := map[int]int{}
	for i, t := range trace {
		if t.Method == "GetReference" && t.Arg == rsl.Ref {
			if _, ok := firstRead[t.Client]; !ok {
				firstRead[t.Client] = i
			}
		}
		if t.Method == "Commit" && t.Arg == rsl.Ref {
			commitAt[t.Client] = i
		}
	}
	// the numbering read is the last GetReference(rsl) before the client's own commit
	lastRead := map[int]int{}
	for i, t := range trace {
		if t.Method == "GetReference" && t.Arg == rsl.Ref {
			if ca, ok := commitAt[t.Client]; ok && i < ca {
				lastRead[t.Client] = i
			}
		}
	}
	for b, rb := range lastRead {
		for a, ca := range commitAt {
			if a != b && rb < ca && ca < commitAt[b] {
				return "stale-number-read: number-read(B) < commit(A) < commit(B)"
			}
		}
	}
	return "other"
}

func runC17(c *fw.Ctx) {
	hist, _ := os.Create(filepath.Join(c.SharedDir, fmt.Sprintf("c17-hist-%d.jsonl", c.Shard)))
	defer hist.Close()
	kinds := []string{"ref", "annot", "staging"}
	idx := 0
	for _, a := range kinds {
		for _, b := range kinds {
			c17Enumerate(c, []string{a, b}, c.Pick(2, 3), &idx, hist)
		}
	}
	if c.Thorough() {
		for _, a := range kinds {
			for _, b := range kinds {
				for _, d := range kinds {
					c17Enumerate(c, []string{a, b, d}, 2, &idx, hist)
				}
			}
		}
	} else {
		// a bounded taste of three clients in the quick tier
		c17Enumerate(c, []string{"ref", "ref", "annot"}, 1, &idx, hist)
	}
	// (ii) real git rounds
	rounds := c.Pick(30, 2000) / c.NShards
	if rounds < 1 {
		rounds = 1
	}
	c17RealGit(c, rounds, hist)
}

func c17RealGit(c *fw.Ctx, rounds int, hist *os.File) {
	r := c.Rand(uint64(1700 + c.Shard))
	shim := c17GitShim(c) == nil
	defer os.Unsetenv("VERIF_GIT_SHIM_DELAY")
	for round := 0; round < rounds; round++ {
		// round flavours: (start state) x (writer kind) x (update-ref delay)
		fl := round + c.Shard // quick runs one or two rounds per worker: vary the flavour across workers
		emptyStart := fl%3 == 1
		delayed := shim && fl%4 != 3
		kinds := []string{"ref", "ref", "annot", "staging", "ref-key"}
		if fl%3 == 2 {
			kinds = []string{"ref-key", "ref-key", "ref"}
		}
		if emptyStart {
			kinds = []string{"ref", "ref", "ref-key", "staging"}
		}
		os.Unsetenv("VERIF_GIT_SHIM_DELAY")
		g, cleanup, err := newScratchGit(c, "c17")
		if err != nil {
			c.Inconclusive("git init")
			return
		}
		c0, _ := g.CommitFiles(map[string]string{"f": "0"}, nil, "c0", nil)
		ids := []githash.Hash{c0}
		ok := true
		if !emptyStart {
			for i := 0; i < 2; i++ {
				id, err := scen.RecordEntry(g, "refs/heads/base", c0, "")
				if err != nil {
					ok = false
				}
				ids = append(ids, id)
			}
		}
		if !ok {
			cleanup()
			c.Inconclusive("real git setup")
			continue
		}
		n := 2 + r.IntN(2)
		ops := make([]string, n)
		for i := range ops {
			ops[i] = kinds[r.IntN(len(kinds))]
		}
		if delayed {
			os.Setenv("VERIF_GIT_SHIM_DELAY", "0.25")
		}
		results := make([]c17Result, n)
		var wg sync.WaitGroup
		start := make(chan struct{})
		for i := range ops {
			wg.Add(1)
			go func(i int) {
				defer wg.Done()
				h, err := scen.OpenGit(g.Dir)
				if err != nil {
					results[i].Err = err.Error()
					return
				}
				<-start
				num, err := c17RunOp(ops[i], i, h, ids)
				results[i].Number = num
				if err != nil {
					results[i].Err = err.Error()
				}
			}(i)
		}
		close(start)
		wg.Wait()
		os.Unsetenv("VERIF_GIT_SHIM_DELAY")
		c.Eval(1)
		c.Nontrivial(fw.Hash("real", c.Shard, round))
		flavour := fmt.Sprintf("real git, goroutines with separate repository handles; start=%s update-ref-delay=%v", map[bool]string{true: "empty-log", false: "two-entries"}[emptyStart], delayed)
		cs := c17Case{Ops: ops, Schedule: nil, Trace: []string{flavour}}
		c.Count("real_git:"+flavour[strings.Index(flavour, "start="):], 1)
		glog, werr := walkLogGit(g)
		if emptyStart && werr != nil && strings.Contains(werr.Error(), "reference-state-log") && len(c17RawEntriesGit(g)) == 0 {
			werr = nil // every writer failed on the empty log: nothing was written
		}
		nums := map[uint64]int{}
		okCount := 0
		for i, res := range results {
			if res.Err == "" {
				okCount++
				if ops[i] != "staging" {
					nums[res.Number]++
				}
			}
		}
		dupAssigned := false
		for _, k := range nums {
			if k > 1 {
				dupAssigned = true
			}
		}
		// two adjacent entries carrying the same number, each acknowledged to its
		// writer: the observable footprint of number-read(B) < commit(A) < commit(B)
		for i := 1; i < len(glog); i++ {
			if glog[i].HasNum && glog[i-1].HasNum && glog[i].Number == glog[i-1].Number {
				dupAssigned = true
			}
		}
		if werr != nil {
			kind := "log-corrupt"
			shape := "other"
			if strings.Contains(werr.Error(), "has number") || strings.Contains(werr.Error(), "carry number") {
				kind = "numbering-broken"
				// a writer that read the tip for numbering before one or more other
				// writers committed carries a number that is too small for its parent
				// (equal to a neighbour's when exactly one commit intervened)
				var have, want int
				tooSmall := false
				if i := strings.Index(werr.Error(), "has number "); i >= 0 {
					if n, _ := fmt.Sscanf(werr.Error()[i:], "has number %d, its parent implies %d", &have, &want); n == 2 && have < want {
						tooSmall = true
					}
				}
				if dupAssigned || tooSmall {
					shape = "stale-number-read: number-read(B) < commit(A) < commit(B)"
				}
			}
			c.Violation(kind, map[string]string{"shape": shape}, fmt.Sprintf("real git, concurrent %v: %v (results %+v)", ops, werr, results), cs)
			c.Count("real_git:collisions", 1)
		} else {
			if okCount > 0 {
				if _, _, err := rsl.GetFirstEntry(g); err != nil {
					c.Violation("reader-cannot-walk", map[string]string{"shape": "other"}, "real git: rsl.GetFirstEntry fails: "+err.Error(), cs)
				}
			}
			c.Count("real_git:clean_rounds", 1)
		}
		// exactly-once / no-trace, read from the raw log (also when the numbering is broken)
		raw := c17RawEntriesGit(g)
		okStaging, staged := 0, 0
		for _, e := range raw {
			if e.Kind == "reference" && e.Ref == "refs/gittuf/policy-staging" {
				staged++
			}
		}
		for i, res := range results {
			if ops[i] == "staging" {
				if res.Err == "" {
					okStaging++
				}
				continue
			}
			count := 0
			for _, e := range raw {
				if e.Kind == "reference" && e.Ref == fmt.Sprintf("refs/heads/c%d", i) && ops[i] != "annot" {
					count++
				}
				if e.Kind == "annotation" && e.Msg == fmt.Sprintf("ann-c%d", i) && ops[i] == "annot" {
					count++
				}
			}
			if res.Err == "" && count != 1 {
				c.Violation("acknowledged-entry-missing-or-duplicated", map[string]string{"count": fmt.Sprint(count), "op": ops[i], "backend": "real-git"}, fmt.Sprintf("real git, concurrent %v (%s): writer %d (%s) returned nil but its entry occurs %d times in the log", ops, flavour, i, ops[i], count), cs)
			}
			if res.Err != "" && count != 0 {
				c.Violation("failed-operation-left-entry", map[string]string{"op": ops[i], "backend": "real-git"}, fmt.Sprintf("real git, concurrent %v: writer %d (%s) failed (%s) but its entry is in the log", ops, i, ops[i], res.Err), cs)
			}
		}
		if staged < okStaging {
			c.Violation("acknowledged-entry-missing-or-duplicated", map[string]string{"count": fmt.Sprint(staged), "op": "staging", "backend": "real-git"}, fmt.Sprintf("real git: %d staging commits returned nil, %d staging entries in the log", okStaging, staged), cs)
		}
		c.Count(fmt.Sprintf("real_git:ops_succeeded=%d_of_%d", okCount, n), 1)
		cleanup()
	}
}

func raceC17(c *fw.Ctx) {
	c17RealGit(c, c.Pick(8, 200)/c.NShards+1, nil)
}

// postC17 runs porcupine over the histories the shards recorded.
func postC17(sharedDir, verifDir string) ([]fw.Violation, map[string]any, error) {
	files, _ := filepath.Glob(filepath.Join(sharedDir, "c17-hist-*.jsonl"))
	bin := filepath.Join(verifDir, "build", "lincheck")
	notes := map[string]any{}
	if _, err := os.Stat(bin); err != nil {
		return nil, map[string]any{"porcupine": "lincheck binary missing; histories not checked"}, fmt.Errorf("lincheck binary missing (run setup.sh)")
	}
	if len(files) == 0 {
		return nil, notes, fmt.Errorf("no histories recorded")
	}
	out, err := exec.Command(bin, files...).Output()
	if err != nil {
		return nil, notes, fmt.Errorf("lincheck: %v", err)
	}
	var res struct {
		Histories  int      `json:"histories"`
		OK         int      `json:"ok"`
		Illegal    int      `json:"illegal"`
		Unknown    int      `json:"unknown"`
		Operations int      `json:"operations"`
		IllegalIDs []string `json:"illegal_ids"`
	}
	if err := json.Unmarshal(out, &res); err != nil {
		return nil, notes, err
	}
	notes["porcupine"] = map[string]any{"histories": res.Histories, "linearizable": res.OK, "illegal": res.Illegal, "unknown_timeout": res.Unknown, "operations": res.Operations}
	var vs []fw.Violation
	seen := map[string]bool{}
	for _, id := range res.IllegalIDs {
		shape := id[strings.LastIndex(id, "|")+1:]
		if seen[shape] {
			continue
		}
		seen[shape] = true
		vs = append(vs, fw.Violation{Kind: "history-not-linearizable", Attrs: map[string]string{"shape": shape}, What: "porcupine: the recorded append history has no linearization against the sequential numbered-log model: " + id})
	}
	if res.Unknown > 0 {
		return vs, notes, fmt.Errorf("porcupine timed out on %d histories (inconclusive)", res.Unknown)
	}
	return vs, notes, nil
}

func replayC17(c *fw.Ctx, raw json.RawMessage) error {
	var cs c17Case
	if err := json.Unmarshal(raw, &cs); err != nil {
		return err
	}
	if len(cs.Ops) == 0 {
		var w struct {
			Case c17Case `json:"case"`
		}
		if err := json.Unmarshal(raw, &w); err == nil {
			cs = w.Case
		}
	}
	if cs.Schedule == nil {
		return fmt.Errorf("real-git rounds are not deterministic; the witness is self-describing: %v", cs)
	}
	steps, results, store, trace, err := c17Exec(cs.Ops, cs.Schedule)
	if err != nil {
		return err
	}
	sched := make([]int, len(steps))
	for i, s := range steps {
		sched[i] = s.Chosen
	}
	for _, t := range trace {
		fmt.Printf("   client %d: %s(%s)\n", t.Client, t.Method, t.Arg)
	}
	fmt.Printf("results: %+v\n", results)
	c17Judge(c, cs.Ops, sched, results, store, trace, nil, 2)
	return nil
}
