package checks

import (
	"bytes"
	"encoding/hex"
	"encoding/json"
	"fmt"
	"math/rand/v2"
	"sort"
	"strings"

	"github.com/gittuf/gittuf/internal/policy"
	"github.com/gittuf/gittuf/internal/verifharness/fw"
	"github.com/gittuf/gittuf/internal/verifharness/keys"
	"github.com/gittuf/gittuf/internal/verifharness/scen"
	"github.com/gittuf/gittuf/pkg/githash"
	"github.com/gittuf/gittuf/pkg/gitstore"
	"github.com/gittuf/gittuf/pkg/rsl"
)

// C10 — file rules see every changed path verbatim; odd path names are not exempt.
//
// Real git only. Trees are written by the harness's own plumbing
// (hash-object -w, mktree -z); the ground truth is the path list the generator
// wrote, cross-read with diff-tree / ls-tree -z.

func init() {
	fw.Register(&fw.Check{
		ID:    "C10",
		Level: "exploration",
		Rule: "commit graphs (root commit, linear child, merge with two parents) over trees whose path components are drawn from {space, leading/trailing space, tab, double quote, backslash, control byte, 2/3/4-byte UTF-8, invalid UTF-8, leading dash, glob metacharacters, names that are prefixes of one another}; readers GetFilePathsChangedByCommit / GetAllFilesInTree / GetEntriesInTree / GetPathIDInTree / WriteTree round trip compared byte-for-byte with the generator's list; then a push whose commit (signed by an outsider / by the authorized key) touches a path protected by a file rule (literal rule for names free of * ? [ \\, dir/* and * otherwise) verified with VerifyRefFull. " +
			"distinct = hash(tree paths, operation); non-trivial = the tree contains at least one path outside [A-Za-z0-9._/-]",
		Assumptions: []string{
			"ground truth = what the generator wrote with mktree -z; a disagreement between the generator and git's own -z output is a machinery error (inconclusive)",
			"literal file rules are only written for names without glob metacharacters so that the oracle needs no fnmatch",
		},
		MinNontrivial: 40,
		Run:           runC10,
		Replay:        replayC10,
	})
}

var c10Components = []string{
	"plain", "a b", " lead", "trail ", "tab\there", "q\"uote", "back\\slash", "ctl\x01x", "é", "日本", "𝄞clef", "bad\xff\xfeutf", "-dash", "star*", "q?mark", "br[ack]", "foo", "foobar", "foo.d", "UPPER", "semi;colon", "dollar$", "apos'trophe", "pipe|", "amp&", "hash#", "del\x7f",
}

type c10File struct {
	Path    string `json:"-"`
	PathHex string `json:"path_hex"`
	Content string `json:"content"`
}

type c10Case struct {
	Files   []c10File `json:"files"`
	Changed []string  `json:"changed_hex,omitempty"`
	Op      string    `json:"op"`
	Rule    string    `json:"rule_hex,omitempty"`
}

// c10WriteTree writes a (nested) tree with mktree -z and returns its id.
func c10WriteTree(g *scen.Git, files map[string]string) (githash.Hash, error) {
	type node struct {
		blobs map[string]string
		dirs  map[string]*node
	}
	root := &node{blobs: map[string]string{}, dirs: map[string]*node{}}
	for p, content := range files {
		parts := strings.Split(p, "/")
		cur := root
		for _, d := range parts[:len(parts)-1] {
			if cur.dirs[d] == nil {
				cur.dirs[d] = &node{blobs: map[string]string{}, dirs: map[string]*node{}}
			}
			cur = cur.dirs[d]
		}
		cur.blobs[parts[len(parts)-1]] = content
	}
	var write func(n *node) (string, error)
	write = func(n *node) (string, error) {
		var in bytes.Buffer
		for name, content := range n.blobs {
			id, err := g.Run([]byte(content), nil, "hash-object", "-w", "--stdin")
			if err != nil {
				return "", err
			}
			fmt.Fprintf(&in, "100644 blob %s\t%s\x00", id, name)
		}
		for name, d := range n.dirs {
			id, err := write(d)
			if err != nil {
				return "", err
			}
			fmt.Fprintf(&in, "040000 tree %s\t%s\x00", id, name)
		}
		return g.Run(in.Bytes(), nil, "mktree", "-z")
	}
	id, err := write(root)
	if err != nil {
		return nil, err
	}
	return githash.NewHash(id)
}

func c10LsTreeZ(g *scen.Git, tree githash.Hash, recursive bool) (map[string]string, error) {
	args := []string{"ls-tree", "-z"}
	if recursive {
		args = append(args, "-r")
	}
	args = append(args, tree.String())
	raw, err := g.RunRaw(nil, args...)
	if err != nil {
		return nil, err
	}
	out := map[string]string{}
	for _, rec := range bytes.Split(raw, []byte{0}) {
		if len(rec) == 0 {
			continue
		}
		tab := bytes.IndexByte(rec, '\t')
		meta := strings.Fields(string(rec[:tab]))
		out[string(rec[tab+1:])] = meta[1] + ":" + meta[2]
	}
	return out, nil
}

func c10DiffZ(g *scen.Git, a, b string) ([]string, error) {
	raw, err := g.RunRaw(nil, "diff-tree", "--no-commit-id", "--name-only", "-r", "-z", a, b)
	if err != nil {
		return nil, err
	}
	out := []string{}
	for _, rec := range bytes.Split(raw, []byte{0}) {
		if len(rec) > 0 {
			out = append(out, string(rec))
		}
	}
	sort.Strings(out)
	return out, nil
}

func hexAll(ss []string) []string {
	out := make([]string, len(ss))
	for i, s := range ss {
		out[i] = hex.EncodeToString([]byte(s))
	}
	return out
}

func c10GenFiles(r *rand.Rand) map[string]string {
	n := 2 + r.IntN(5)
	files := map[string]string{}
	for tries := 0; len(files) < n && tries < 400; tries++ {
		depth := r.IntN(3)
		parts := []string{}
		for d := 0; d <= depth; d++ {
			parts = append(parts, c10Components[r.IntN(len(c10Components))])
		}
		p := strings.Join(parts, "/")
		// a name cannot be both a file and a directory
		clash := false
		for q := range files {
			if strings.HasPrefix(q, p+"/") || strings.HasPrefix(p, q+"/") || p == q {
				clash = true
			}
		}
		if clash {
			continue
		}
		files[p] = fmt.Sprintf("content of %x", p)
	}
	return files
}

func c10Odd(files map[string]string) bool {
	for p := range files {
		for _, b := range []byte(p) {
			if !(b >= 'a' && b <= 'z' || b >= 'A' && b <= 'Z' || b >= '0' && b <= '9' || b == '.' || b == '_' || b == '/' || b == '-') {
				return true
			}
		}
	}
	return false
}

func c10CaseOf(files map[string]string, op string) c10Case {
	cs := c10Case{Op: op}
	names := []string{}
	for p := range files {
		names = append(names, p)
	}
	sort.Strings(names)
	for _, p := range names {
		cs.Files = append(cs.Files, c10File{PathHex: hex.EncodeToString([]byte(p)), Content: files[p]})
	}
	return cs
}

func setOf(ss []string) string {
	c := append([]string{}, ss...)
	sort.Strings(c)
	return strings.Join(hexAll(c), ",")
}

func c10Readers(c *fw.Ctx, g *scen.Git, files map[string]string) (githash.Hash, bool) {
	tree, err := c10WriteTree(g, files)
	if err != nil {
		c.Inconclusive("mktree failed: " + trunc(err.Error(), 60))
		return nil, false
	}
	// generator vs git (-z): must agree, otherwise the machinery is wrong
	truth, err := c10LsTreeZ(g, tree, true)
	if err != nil || len(truth) != len(files) {
		c.Inconclusive("generator and git ls-tree -z disagree")
		return nil, false
	}
	for p := range files {
		if _, ok := truth[p]; !ok {
			c.Inconclusive("generator and git ls-tree -z disagree")
			return nil, false
		}
	}
	odd := c10Odd(files)
	// GetAllFilesInTree
	c.Eval(1)
	cs := c10CaseOf(files, "GetAllFilesInTree")
	if odd {
		c.Nontrivial(fw.Hash(cs))
	}
	c.Guard(cs, func() {
		got, err := g.GetAllFilesInTree(tree)
		if err != nil {
			c.Violation("reader-error", map[string]string{"reader": "GetAllFilesInTree"}, err.Error(), cs)
			return
		}
		want := []string{}
		for p := range files {
			want = append(want, p)
		}
		have := []string{}
		for p, id := range got {
			have = append(have, p)
			if t, ok := truth[p]; ok && t != "blob:"+id.String() {
				c.Violation("wrong-blob-id", map[string]string{"reader": "GetAllFilesInTree"}, fmt.Sprintf("path %q maps to %s, tree says %s", p, id.String(), t), cs)
			}
		}
		if setOf(want) != setOf(have) {
			c.Violation("paths-not-verbatim", map[string]string{"reader": "GetAllFilesInTree", "how": c10How(want, have)}, fmt.Sprintf("tree has %q, reader returned %q", sortedCopy(want), sortedCopy(have)), cs)
		}
	})
	// GetEntriesInTree (top level)
	c.Eval(1)
	cs = c10CaseOf(files, "GetEntriesInTree")
	c.Guard(cs, func() {
		top, err := c10LsTreeZ(g, tree, false)
		if err != nil {
			c.Inconclusive("ls-tree -z")
			return
		}
		got, err := g.GetEntriesInTree(tree)
		if err != nil {
			c.Violation("reader-error", map[string]string{"reader": "GetEntriesInTree"}, err.Error(), cs)
			return
		}
		want, have := []string{}, []string{}
		for n := range top {
			want = append(want, n)
		}
		for _, e := range got {
			have = append(have, e.Path)
			kind := "blob"
			if e.Kind == gitstore.KindSubtree {
				kind = "tree"
			}
			if t, ok := top[e.Path]; ok && t != kind+":"+e.ID.String() {
				c.Violation("wrong-entry", map[string]string{"reader": "GetEntriesInTree"}, fmt.Sprintf("entry %q is %s:%s, tree says %s", e.Path, kind, e.ID.String(), t), cs)
			}
		}
		if setOf(want) != setOf(have) {
			c.Violation("paths-not-verbatim", map[string]string{"reader": "GetEntriesInTree", "how": c10How(want, have)}, fmt.Sprintf("tree has %q, reader returned %q", sortedCopy(want), sortedCopy(have)), cs)
		}
	})
	// GetPathIDInTree
	for p := range files {
		c.Eval(1)
		cs = c10CaseOf(files, "GetPathIDInTree")
		p := p
		c.Guard(cs, func() {
			id, err := g.GetPathIDInTree(tree, p)
			if err != nil || truth[p] != "blob:"+id.String() {
				c.Violation("path-lookup-wrong", map[string]string{"reader": "GetPathIDInTree", "how": c10How([]string{p}, nil)}, fmt.Sprintf("lookup of %q gave %v (err %v), tree says %s", p, id, err, truth[p]), cs)
			}
		})
	}
	// WriteTree round trip
	c.Eval(1)
	cs = c10CaseOf(files, "WriteTree")
	c.Guard(cs, func() {
		entries := []gitstore.TreeEntry{}
		for p, t := range truth {
			id, _ := githash.NewHash(strings.TrimPrefix(t, "blob:"))
			entries = append(entries, gitstore.TreeEntry{Path: p, ID: id, Kind: gitstore.KindBlob})
		}
		got, err := g.WriteTree(entries)
		if err != nil {
			c.Violation("tree-rewrite-differs", map[string]string{"how": "error"}, "WriteTree failed: "+err.Error(), cs)
			return
		}
		if !got.Equal(tree) {
			back, _ := c10LsTreeZ(g, got, true)
			have := []string{}
			for p := range back {
				have = append(have, p)
			}
			want := []string{}
			for p := range truth {
				want = append(want, p)
			}
			c.Violation("tree-rewrite-differs", map[string]string{"how": c10How(want, have)}, fmt.Sprintf("tree read and rewritten has another id; paths now %q", sortedCopy(have)), cs)
		}
	})
	return tree, true
}

func sortedCopy(ss []string) []string {
	c := append([]string{}, ss...)
	sort.Strings(c)
	return c
}

// c10How classifies the mangling from the names involved.
func c10How(want, have []string) string {
	haveSet := map[string]bool{}
	for _, h := range have {
		haveSet[h] = true
	}
	classes := map[string]bool{}
	for _, w := range want {
		if haveSet[w] {
			continue
		}
		switch {
		case strings.ContainsAny(w, "\"\\\t\x01\x7f") || !isASCII(w):
			classes["c-quoted"] = true
		case strings.Contains(w, " "):
			classes["split-at-space"] = true
		default:
			classes["other"] = true
		}
	}
	out := []string{}
	for k := range classes {
		out = append(out, k)
	}
	sort.Strings(out)
	if len(out) == 0 {
		return "extra-paths"
	}
	return strings.Join(out, "+")
}

func isASCII(s string) bool {
	for _, b := range []byte(s) {
		if b >= 0x80 {
			return false
		}
	}
	return true
}

func literalOK(p string) bool { return !strings.ContainsAny(p, "*?[\\") }

func runC10(c *fw.Ctx) {
	r := c.Rand(uint64(1000 + c.Shard))
	n := c.Pick(48, 1500) / c.NShards
	for i := 0; i < n; i++ {
		g, cleanup, err := newScratchGit(c, "c10")
		if err != nil {
			c.Inconclusive("git init")
			return
		}
		c10Graph(c, g, r)
		cleanup()
	}
}

func c10Graph(c *fw.Ctx, g *scen.Git, r *rand.Rand) {
	rsl.VerifResetCache()
	f1 := c10GenFiles(r)
	t1, ok := c10Readers(c, g, f1)
	if !ok {
		return
	}
	// linear child: modify one, delete one, add some
	f2 := map[string]string{}
	names := []string{}
	for p, v := range f1 {
		f2[p] = v
		names = append(names, p)
	}
	sort.Strings(names)
	changed := map[string]bool{}
	mod := names[r.IntN(len(names))]
	f2[mod] = f2[mod] + " modified"
	changed[mod] = true
	if len(names) > 2 {
		del := names[r.IntN(len(names))]
		if del != mod {
			delete(f2, del)
			changed[del] = true
		}
	}
	for p, v := range c10GenFiles(r) {
		clash := false
		for q := range f2 {
			if strings.HasPrefix(q, p+"/") || strings.HasPrefix(p, q+"/") || p == q {
				clash = true
			}
		}
		for q := range f1 {
			if strings.HasPrefix(q, p+"/") || strings.HasPrefix(p, q+"/") {
				clash = true
			}
		}
		if !clash && r.IntN(2) == 0 {
			f2[p] = v
			changed[p] = true
		}
	}
	t2, ok := c10Readers(c, g, f2)
	if !ok {
		return
	}
	c1, err := g.CommitTree(t1, nil, "root", nil)
	if err != nil {
		c.Inconclusive("commit-tree")
		return
	}
	c2, err := g.CommitTree(t2, []githash.Hash{c1}, "child", nil)
	if err != nil {
		c.Inconclusive("commit-tree")
		return
	}
	// root commit: every path; child: the changed set
	c10Changed(c, g, c1, keysOfStr(f1), f1, "root-commit")
	want := []string{}
	for p := range changed {
		want = append(want, p)
	}
	if truth, err := c10DiffZ(g, c1.String(), c2.String()); err != nil || setOf(truth) != setOf(want) {
		c.Inconclusive("generator and git diff-tree -z disagree")
	} else {
		c10Changed(c, g, c2, want, f2, "linear")
	}
	// merge: second parent is an unrelated root with other content
	f3 := c10GenFiles(r)
	t3, err := c10WriteTree(g, f3)
	if err == nil {
		c3, _ := g.CommitTree(t3, nil, "other root", nil)
		m, merr := g.CommitTree(t2, []githash.Hash{c3, c1}, "merge", nil)
		if merr == nil {
			// tree differs from the last parent (c1) => union of the diffs against each parent
			d1, e1 := c10DiffZ(g, c3.String(), m.String())
			d2, e2 := c10DiffZ(g, c1.String(), m.String())
			if e1 == nil && e2 == nil {
				u := map[string]bool{}
				for _, p := range append(d1, d2...) {
					u[p] = true
				}
				c10Changed(c, g, m, keysOf(u), f2, "merge")
			}
		}
	}
	// verification with file rules
	c10Verify(c, g, r, f1, f2, changed)
}

func keysOfStr(m map[string]string) []string {
	out := []string{}
	for k := range m {
		out = append(out, k)
	}
	sort.Strings(out)
	return out
}

func c10Changed(c *fw.Ctx, g *scen.Git, commit githash.Hash, want []string, files map[string]string, shape string) {
	c.Eval(1)
	cs := c10CaseOf(files, "GetFilePathsChangedByCommit:"+shape)
	cs.Changed = hexAll(sortedCopy(want))
	if c10Odd(files) {
		c.Nontrivial(fw.Hash(cs))
	}
	c.Guard(cs, func() {
		got, err := g.GetFilePathsChangedByCommit(commit)
		if err != nil {
			c.Violation("reader-error", map[string]string{"reader": "GetFilePathsChangedByCommit"}, err.Error(), cs)
			return
		}
		if setOf(got) != setOf(want) {
			c.Violation("paths-not-verbatim", map[string]string{"reader": "GetFilePathsChangedByCommit", "how": c10How(want, got)}, fmt.Sprintf("%s commit changes %q, reader returned %q", shape, sortedCopy(want), sortedCopy(got)), cs)
		} else {
			c.Count("changed_paths_agree:"+shape, 1)
		}
	})
}

// c10Verify: a protected odd-named path changed by an outsider must be
// rejected, by the authorized key accepted.
func c10Verify(c *fw.Ctx, g *scen.Git, r *rand.Rand, f1, f2 map[string]string, changed map[string]bool) {
	ch := keysOf(changed)
	if len(ch) == 0 {
		return
	}
	target := ch[r.IntN(len(ch))]
	var pattern string
	switch {
	case literalOK(target) && r.IntN(3) != 0:
		pattern = "file:" + target
	case strings.Contains(target, "/") && literalOK(target[:strings.LastIndex(target, "/")]):
		pattern = "file:" + target[:strings.LastIndex(target, "/")] + "/*"
	default:
		pattern = "file:*"
	}
	pol := scen.Policy{
		RootPrincipals: []scen.Principal{rootPrincipal}, RootThreshold: 1, RootSigners: []string{"root"},
		TargetsPrincipals: []scen.Principal{rootPrincipal}, TargetsThreshold: 1,
		Files: []scen.RuleFile{{Name: "targets", Principals: []scen.Principal{keyPrincipal("k1")}, Signers: []string{"root"},
			Rules: []scen.Rule{{Name: "protect-files", Patterns: []string{pattern}, Principals: []string{"P1"}, Threshold: 1}}}},
	}
	// "kx+": the outsider's commit follows, inside the same log entry, a commit by the
	// authorized key that changes the same protected path (every commit of an entry
	// is judged on its own)
	for _, variant := range []string{"kx", "k1", "kx+"} {
		signer := strings.TrimSuffix(variant, "+")
		multi := strings.HasSuffix(variant, "+")
		c.Eval(1)
		cs := c10CaseOf(f2, "verify:"+variant)
		cs.Rule = hex.EncodeToString([]byte(pattern))
		cs.Changed = hexAll(ch)
		c.Nontrivial(fw.Hash(cs))
		gg, cleanup, err := newScratchGit(c, "c10v")
		if err != nil {
			c.Inconclusive("git init")
			return
		}
		func() {
			defer cleanup()
			rsl.VerifResetCache()
			if err := scen.StageAndApply(gg, pol, "root"); err != nil {
				c.Inconclusive("policy: " + trunc(err.Error(), 60))
				return
			}
			t1, e1 := c10WriteTree(gg, f1)
			t2, e2 := c10WriteTree(gg, f2)
			if e1 != nil || e2 != nil {
				c.Inconclusive("mktree")
				return
			}
			// base commit by the authorized key (it introduces every path of f1)
			c1, err := gg.CommitTree(t1, nil, "base", keys.Get("k1"))
			if err != nil {
				c.Inconclusive("commit-tree -S")
				return
			}
			_ = gg.SetRef(refMain, c1)
			if _, err := scen.RecordEntry(gg, refMain, c1, "k1"); err != nil {
				c.Inconclusive("record base")
				return
			}
			parent := c1
			if multi {
				fM := map[string]string{}
				for k, v := range f1 {
					fM[k] = v
				}
				fM[target] = "changed by the authorized key first"
				tM, eM := c10WriteTree(gg, fM)
				if eM != nil {
					c.Inconclusive("mktree")
					return
				}
				cM, err := gg.CommitTree(tM, []githash.Hash{c1}, "authorized change", keys.Get("k1"))
				if err != nil {
					c.Inconclusive("commit-tree -S")
					return
				}
				parent = cM
			}
			c2, err := gg.CommitTree(t2, []githash.Hash{parent}, "change", keys.Get(signer))
			// commits of one entry are inspected in id order: let the outsider's commit come last
			for try := 0; multi && err == nil && try < 12 && c2.String() < parent.String(); try++ {
				c2, err = gg.CommitTree(t2, []githash.Hash{parent}, fmt.Sprintf("change %d", try), keys.Get(signer))
			}
			if err != nil {
				c.Inconclusive("commit-tree -S")
				return
			}
			_ = gg.SetRef(refMain, c2)
			if _, err := scen.RecordEntry(gg, refMain, c2, "k1"); err != nil {
				c.Inconclusive("record change")
				return
			}
			c.Guard(cs, func() {
				_, err := policy.NewPolicyVerifier(gg).VerifyRefFull(scen.Ctx, refMain)
				switch {
				case signer == "kx" && err == nil:
					c.Violation("protected-path-change-accepted", map[string]string{"pattern": strings.SplitN(c10PatternClass(pattern), ":", 2)[0], "how": c10How([]string{target}, nil)}, fmt.Sprintf("commit by an outsider changes %q protected by rule %q, verification accepts", target, pattern), cs)
				case signer == "k1" && err != nil:
					c.Violation("authorized-path-change-rejected", map[string]string{"pattern": c10PatternClass(pattern), "how": c10How([]string{target}, nil)}, fmt.Sprintf("commit by the authorized key changes %q protected by rule %q, verification fails: %v", target, pattern, err), cs)
				default:
					c.Count("verify_agree:"+variant, 1)
				}
			})
		}()
	}
}

func c10PatternClass(p string) string {
	switch {
	case p == "file:*":
		return "catch-all"
	case strings.HasSuffix(p, "/*"):
		return "dir-glob"
	}
	return "literal"
}

func replayC10(c *fw.Ctx, raw json.RawMessage) error {
	var cs c10Case
	if err := json.Unmarshal(raw, &cs); err != nil {
		return err
	}
	if len(cs.Files) == 0 {
		var w struct {
			Case c10Case `json:"case"`
		}
		if err := json.Unmarshal(raw, &w); err == nil {
			cs = w.Case
		}
	}
	files := map[string]string{}
	for _, f := range cs.Files {
		b, _ := hex.DecodeString(f.PathHex)
		files[string(b)] = f.Content
		fmt.Printf("  path %q\n", string(b))
	}
	g, cleanup, err := newScratchGit(c, "c10replay")
	if err != nil {
		return err
	}
	defer cleanup()
	c10Readers(c, g, files)
	return nil
}
