package checks

import (
	"encoding/json"
	"fmt"
	"math/rand/v2"
	"sort"
	"strings"
	"sync"

	"github.com/gittuf/gittuf/internal/verifharness/fw"
	"github.com/gittuf/gittuf/internal/verifharness/memstore"
	"github.com/gittuf/gittuf/pkg/githash"
	"github.com/gittuf/gittuf/pkg/rsl"
)

// C04 — RSL queries match a plain scan of the chain and fail closed on tampering.
//
// Logs are written as raw commits (message = canonical entry text, explicit
// parents and numbers), so single-point corruptions can be expressed. The
// oracle is a plain newest-to-oldest scan over the abstract log using the
// documented option semantics (before = exclusive, until = inclusive).

func init() {
	fw.Register(&fw.Check{
		ID:    "C04",
		Level: "exploration",
		Rule: "all logs up to length L over {entry for ref A, ref B, refs/gittuf/policy, refs/gittuf/policy-staging, propagation entry (A, repoX), skip/plain annotation of any one or two earlier non-annotation entries}, preceded by 0-2 unnumbered legacy entries; x all GetLatestReferenceUpdaterEntry option combinations {ref filter} x {before: none / id or number of each entry / absent id / out-of-range number} x {until likewise} x unskipped x non-gittuf x kind {any, reference-only, propagation-for-repoX, -repoY}; all (first,last[,ref]) range queries; first-entry and non-gittuf-parent queries; then every single-point corruption (extra parent, numbering gap, duplicate number, garbage message, non-RSL commit) of each log x the id-based queries. " +
			"distinct = hash(log, corruption, query); non-trivial = the log has >= 2 entries and the query has at least one condition",
		Assumptions: []string{
			"documented semantics: BeforeEntryID/Number exclusive, UntilEntryID/Number inclusive (pkg/rsl/options.go)",
			"when the scan defines no answer any error is accepted; when it defines one, exactly that entry and exactly those annotations are required",
			"for a corrupted log an error is required iff the plain scan would have to step from the multi-parent entry, across the numbering break, or onto the malformed commit before reaching its answer",
		},
		MinNontrivial: 5000,
		Exhaustive: func(tier string) (bool, string) {
			if tier == "thorough" {
				return true, "all logs of length <= 4 (+0..2 legacy entries) x all option combinations; all single-point corruptions of those logs x id-based queries"
			}
			return true, "all logs of length <= 3 (+0..2 legacy entries) x all (ref, before, until, unskipped) combinations (the non-gittuf and kind dimensions complete where at most one bound is set, by rotation otherwise); all single-point corruptions of those logs x id-based queries"
		},
		Run:     runC04,
		RaceRun: raceC04,
		Replay:  replayC04,
	})
}

const (
	c04RefA    = "refs/heads/a"
	c04RefB    = "refs/heads/b"
	c04Policy  = "refs/gittuf/policy"
	c04Staging = "refs/gittuf/policy-staging"
	c04RepoX   = "https://example.com/x"
	c04RepoY   = "https://example.com/y"
)

// abstract entry
type c04Entry struct {
	Kind    string `json:"kind"` // ref | prop | annot
	Ref     string `json:"ref,omitempty"`
	Targets []int  `json:"targets,omitempty"` // annot: indices of earlier entries
	Skip    bool   `json:"skip,omitempty"`
	Legacy  bool   `json:"legacy,omitempty"` // unnumbered
}

type c04Corruption struct {
	Kind string `json:"kind"` // "" none | extra-parent | gap | dup | garbage | non-rsl
	At   int    `json:"at"`
}

type c04Log struct {
	Entries []c04Entry    `json:"entries"`
	Corrupt c04Corruption `json:"corrupt"`
}

type c04Built struct {
	store   *memstore.Store
	ids     []githash.Hash
	numbers []uint64
}

func fakeTarget(i int) githash.Hash {
	b := make([]byte, 20)
	b[0] = 0xAA
	b[19] = byte(i + 1)
	return githash.Hash(b)
}

func c04Build(l c04Log) *c04Built {
	st := memstore.New()
	st.Tick = false
	empty, _ := st.EmptyTree()
	out := &c04Built{store: st, ids: make([]githash.Hash, len(l.Entries)), numbers: make([]uint64, len(l.Entries))}
	var next uint64 = 1
	// a stray commit used as the extra parent
	stray := st.CreateCommit(empty, nil, "stray", nil)
	for i, e := range l.Entries {
		var num uint64
		if !e.Legacy {
			num = next
			next++
		}
		if l.Corrupt.Kind == "gap" && i >= l.Corrupt.At && !e.Legacy {
			num++
		}
		if l.Corrupt.Kind == "dup" && i >= l.Corrupt.At && !e.Legacy && num > 1 {
			num--
		}
		out.numbers[i] = num
		var entry rsl.Entry
		switch e.Kind {
		case "ref":
			entry = &rsl.ReferenceEntry{RefName: e.Ref, TargetID: fakeTarget(i), Number: num}
		case "prop":
			entry = &rsl.PropagationEntry{RefName: e.Ref, TargetID: fakeTarget(i), UpstreamRepository: c04RepoX, UpstreamEntryID: fakeTarget(100 + i), Number: num}
		case "annot":
			ids := []githash.Hash{}
			for _, t := range e.Targets {
				ids = append(ids, out.ids[t])
			}
			entry = &rsl.AnnotationEntry{RSLEntryIDs: ids, Skip: e.Skip, Message: "m", Number: num}
		}
		msg, err := rsl.VerifCanonicalText(entry)
		if err != nil {
			panic(err)
		}
		if l.Corrupt.At == i {
			switch l.Corrupt.Kind {
			case "garbage":
				msg = "RSL Reference Entry\n\nref refs/heads/a\ntargetID: zz"
			case "non-rsl":
				msg = "Merge branch 'main'"
			}
		}
		var parents []githash.Hash
		if i > 0 {
			parents = []githash.Hash{out.ids[i-1]}
		}
		if l.Corrupt.Kind == "extra-parent" && l.Corrupt.At == i {
			parents = append(parents, stray)
		}
		out.ids[i] = st.CreateCommit(empty, parents, msg, nil)
	}
	if len(l.Entries) > 0 {
		_ = st.SetReference(rsl.Ref, out.ids[len(l.Entries)-1])
	}
	return out
}

// ---------------------------------------------------------------- the model

type c04Query struct {
	Fn        string `json:"fn"` // latest | range | rangeref | first | firstref | nongittufparent
	Ref       string `json:"ref,omitempty"`
	BeforeIdx int    `json:"before_idx"` // -1 none, -2 absent id
	BeforeNum int    `json:"before_num"` // 0 none
	UntilIdx  int    `json:"until_idx"`
	UntilNum  int    `json:"until_num"`
	Unskipped bool   `json:"unskipped,omitempty"`
	NonGittuf bool   `json:"non_gittuf,omitempty"`
	Kind      string `json:"kindf,omitempty"` // "" | ref | propX | propY
	First     int    `json:"first"`
	Last      int    `json:"last"`
	Entry     int    `json:"entry"`
}

type c04Answer struct {
	None    bool    // the scan defines no answer (any error acceptable)
	MustErr bool    // an error is required
	Entries []int   // result entries (index), in order
	Annots  [][]int // annotation indices per result entry (order of occurrence for range; any order for latest)
}

func isUpdater(e c04Entry) bool { return e.Kind == "ref" || e.Kind == "prop" }

func isGittuf(ref string) bool { return strings.HasPrefix(ref, "refs/gittuf/") }

// brokenStep reports whether moving from entry i to entry i-1 is forbidden by
// the corruption, or whether entry i itself cannot be read.
func (l c04Log) unreadable(i int) bool {
	return (l.Corrupt.Kind == "garbage" || l.Corrupt.Kind == "non-rsl") && l.Corrupt.At == i
}

func (l c04Log) brokenStepFrom(i int, numbers []uint64) bool {
	if i < 0 {
		return false
	}
	if l.Corrupt.Kind == "extra-parent" {
		// for the oldest entry the extra parent is its only parent: stepping from it
		// lands on a commit that is not an entry
		return l.Corrupt.At == i
	}
	if i == 0 {
		return false
	}
	switch l.Corrupt.Kind {
	case "gap", "dup":
		// the break is between At and At-1 (only if both numbered and numbers actually disagree)
		if l.Corrupt.At != i {
			return false
		}
		a, b := numbers[i], numbers[i-1]
		switch a {
		case 0, 1:
			return b != 0
		default:
			return b != a-1
		}
	}
	return false
}

// annotsFor returns indices of annotations newer than position `from`
// (exclusive lower bound pos) that refer to entry t.
func annotsReferring(l c04Log, t int, newerThan int) []int {
	out := []int{}
	for j := len(l.Entries) - 1; j > newerThan; j-- {
		if l.Entries[j].Kind != "annot" {
			continue
		}
		for _, x := range l.Entries[j].Targets {
			if x == t {
				out = append(out, j)
				break
			}
		}
	}
	return out
}

func skippedBy(l c04Log, t int, annots []int) bool {
	for _, a := range annots {
		if l.Entries[a].Skip {
			return true
		}
	}
	return false
}

func c04ModelLatest(l c04Log, numbers []uint64, q c04Query) c04Answer {
	n := len(l.Entries)
	if n == 0 {
		return c04Answer{None: true}
	}
	if (q.BeforeIdx != -1 && q.BeforeNum != 0) || (q.UntilIdx != -1 && q.UntilNum != 0) {
		return c04Answer{MustErr: true}
	}
	if q.BeforeNum != 0 && q.UntilNum != 0 && q.BeforeNum < q.UntilNum {
		return c04Answer{MustErr: true}
	}
	if q.Kind == "ref+prop" {
		return c04Answer{MustErr: true}
	}
	latestNum := numbers[n-1]
	if latestNum == 0 && (q.BeforeNum != 0 || q.UntilNum != 0) {
		return c04Answer{MustErr: true}
	}
	if q.UntilNum != 0 && uint64(q.UntilNum) > latestNum {
		return c04Answer{MustErr: true}
	}
	// walk newest to oldest; pos is the entry being looked at
	pos := n - 1
	step := func() (ok bool, broken bool) {
		// move from pos to pos-1
		if l.brokenStepFrom(pos, numbers) {
			return false, true
		}
		pos--
		if pos < 0 {
			return false, false
		}
		if l.unreadable(pos) {
			return false, true
		}
		return true, false
	}
	if l.unreadable(pos) {
		return c04Answer{MustErr: true}
	}
	if q.BeforeIdx != -1 || q.BeforeNum != 0 {
		for {
			if q.BeforeIdx >= 0 && pos == q.BeforeIdx {
				break
			}
			if q.BeforeNum != 0 && numbers[pos] != 0 && numbers[pos] == uint64(q.BeforeNum) {
				break
			}
			ok, broken := step()
			if broken {
				return c04Answer{MustErr: true}
			}
			if !ok {
				return c04Answer{None: true} // anchor not in the log
			}
		}
		ok, broken := step()
		if broken {
			return c04Answer{MustErr: true}
		}
		if !ok {
			return c04Answer{None: true}
		}
	}
	for {
		// until bound: entries older than the bound are not examined
		if q.UntilNum != 0 && numbers[pos] < uint64(q.UntilNum) {
			return c04Answer{None: true}
		}
		e := l.Entries[pos]
		if isUpdater(e) {
			match := true
			if q.Ref != "" && e.Ref != q.Ref {
				match = false
			}
			if q.Kind == "ref" && e.Kind != "ref" {
				match = false
			}
			if q.Kind == "propX" && e.Kind != "prop" {
				match = false
			}
			if q.Kind == "propY" {
				match = false // all propagation entries in the alphabet are for repoX
			}
			if q.NonGittuf && isGittuf(e.Ref) {
				match = false
			}
			an := annotsReferring(l, pos, pos)
			if match && q.Unskipped && e.Kind == "ref" && skippedBy(l, pos, an) {
				match = false
			}
			if match {
				return c04Answer{Entries: []int{pos}, Annots: [][]int{an}}
			}
		}
		if q.UntilIdx >= 0 && pos == q.UntilIdx {
			return c04Answer{None: true} // inclusive bound examined, nothing older qualifies
		}
		ok, broken := step()
		if broken {
			return c04Answer{MustErr: true}
		}
		if !ok {
			return c04Answer{None: true}
		}
	}
}

func relevantForRange(e c04Entry, ref string) bool {
	if !isUpdater(e) {
		return false
	}
	if ref == "" || e.Ref == ref {
		return true
	}
	return isGittuf(e.Ref) && e.Ref != c04Staging
}

func c04ModelRange(l c04Log, numbers []uint64, q c04Query) c04Answer {
	n := len(l.Entries)
	if n == 0 || q.First < 0 || q.Last < 0 || q.First >= n || q.Last >= n || q.First > q.Last {
		return c04Answer{None: true}
	}
	// the walk goes from the tip down to First: any break on the way is fatal
	for pos := n - 1; pos >= q.First; pos-- {
		if l.unreadable(pos) {
			return c04Answer{MustErr: true}
		}
		if pos > q.First && l.brokenStepFrom(pos, numbers) {
			return c04Answer{MustErr: true}
		}
	}
	ans := c04Answer{}
	for pos := q.First; pos <= q.Last; pos++ {
		if relevantForRange(l.Entries[pos], q.Ref) {
			ans.Entries = append(ans.Entries, pos)
			an := annotsReferring(l, pos, pos)
			sort.Ints(an) // order of occurrence
			// annotations older than First are not seen (the walk stops at First) - they
			// cannot refer to entries in range anyway
			ans.Annots = append(ans.Annots, an)
		}
	}
	return ans
}

func c04ModelFirst(l c04Log, numbers []uint64, ref string) c04Answer {
	n := len(l.Entries)
	if n == 0 {
		return c04Answer{None: true}
	}
	for pos := n - 1; pos >= 0; pos-- {
		if l.unreadable(pos) {
			return c04Answer{MustErr: true}
		}
		if l.brokenStepFrom(pos, numbers) {
			return c04Answer{MustErr: true}
		}
	}
	for pos := 0; pos < n; pos++ {
		e := l.Entries[pos]
		if isUpdater(e) && (ref == "" || e.Ref == ref) {
			return c04Answer{Entries: []int{pos}, Annots: [][]int{annotsReferring(l, pos, pos)}}
		}
	}
	return c04Answer{None: true}
}

func c04ModelNonGittufParent(l c04Log, numbers []uint64, entry int) c04Answer {
	n := len(l.Entries)
	if entry <= 0 || entry >= n {
		return c04Answer{None: true}
	}
	// walk from tip to the entry's parent, then on to the first non-gittuf updater
	for pos := n - 1; pos >= entry; pos-- {
		if l.unreadable(pos) {
			return c04Answer{MustErr: true}
		}
		if l.brokenStepFrom(pos, numbers) {
			return c04Answer{MustErr: true}
		}
	}
	for pos := entry - 1; pos >= 0; pos-- {
		if l.unreadable(pos) {
			return c04Answer{MustErr: true}
		}
		e := l.Entries[pos]
		if isUpdater(e) && !isGittuf(e.Ref) {
			return c04Answer{Entries: []int{pos}, Annots: [][]int{annotsReferring(l, pos, pos)}}
		}
		if l.brokenStepFrom(pos, numbers) {
			return c04Answer{MustErr: true}
		}
	}
	return c04Answer{None: true}
}

// ------------------------------------------------------------- the driver

func absentID() githash.Hash {
	b := make([]byte, 20)
	b[0] = 0xEE
	return githash.Hash(b)
}

func c04Exec(b *c04Built, l c04Log, q c04Query) (entries []string, annots [][]string, err error) {
	idOf := func(i int) githash.Hash {
		if i == -2 {
			return absentID()
		}
		return b.ids[i]
	}
	toAnnots := func(as []*rsl.AnnotationEntry) []string {
		out := []string{}
		for _, a := range as {
			out = append(out, a.GetID().String())
		}
		return out
	}
	switch q.Fn {
	case "latest":
		opts := []rsl.GetLatestReferenceUpdaterEntryOption{}
		if q.Ref != "" {
			opts = append(opts, rsl.ForReference(q.Ref))
		}
		if q.BeforeIdx != -1 {
			opts = append(opts, rsl.BeforeEntryID(idOf(q.BeforeIdx)))
		}
		if q.BeforeNum != 0 {
			opts = append(opts, rsl.BeforeEntryNumber(uint64(q.BeforeNum)))
		}
		if q.UntilIdx != -1 {
			opts = append(opts, rsl.UntilEntryID(idOf(q.UntilIdx)))
		}
		if q.UntilNum != 0 {
			opts = append(opts, rsl.UntilEntryNumber(uint64(q.UntilNum)))
		}
		if q.Unskipped {
			opts = append(opts, rsl.IsUnskipped())
		}
		if q.NonGittuf {
			opts = append(opts, rsl.ForNonGittufReference())
		}
		switch q.Kind {
		case "ref":
			opts = append(opts, rsl.IsReferenceEntry())
		case "propX":
			opts = append(opts, rsl.IsPropagationEntryForRepository(c04RepoX))
		case "propY":
			opts = append(opts, rsl.IsPropagationEntryForRepository(c04RepoY))
		case "ref+prop":
			opts = append(opts, rsl.IsReferenceEntry(), rsl.IsPropagationEntryForRepository(c04RepoX))
		}
		e, as, err := rsl.GetLatestReferenceUpdaterEntry(b.store, opts...)
		if err != nil {
			return nil, nil, err
		}
		return []string{e.GetID().String()}, [][]string{toAnnots(as)}, nil
	case "range", "rangeref":
		var (
			es []rsl.ReferenceUpdaterEntry
			am map[string][]*rsl.AnnotationEntry
		)
		if q.Fn == "range" {
			es, am, err = rsl.GetReferenceUpdaterEntriesInRange(b.store, idOf(q.First), idOf(q.Last))
		} else {
			es, am, err = rsl.GetReferenceUpdaterEntriesInRangeForRef(b.store, idOf(q.First), idOf(q.Last), q.Ref)
		}
		if err != nil {
			return nil, nil, err
		}
		for _, e := range es {
			entries = append(entries, e.GetID().String())
			annots = append(annots, toAnnots(am[e.GetID().String()]))
		}
		return entries, annots, nil
	case "first":
		e, as, err := rsl.GetFirstEntry(b.store)
		if err != nil {
			return nil, nil, err
		}
		return []string{e.GetID().String()}, [][]string{toAnnots(as)}, nil
	case "firstref":
		e, as, err := rsl.GetFirstReferenceUpdaterEntryForRef(b.store, q.Ref)
		if err != nil {
			return nil, nil, err
		}
		return []string{e.GetID().String()}, [][]string{toAnnots(as)}, nil
	case "nongittufparent":
		ent, gerr := rsl.GetEntry(b.store, idOf(q.Entry))
		if gerr != nil {
			return nil, nil, gerr
		}
		e, as, err := rsl.GetNonGittufParentReferenceUpdaterEntryForEntry(b.store, ent)
		if err != nil {
			return nil, nil, err
		}
		return []string{e.GetID().String()}, [][]string{toAnnots(as)}, nil
	}
	return nil, nil, fmt.Errorf("unknown fn")
}

type c04Case struct {
	Log   c04Log   `json:"log"`
	Query c04Query `json:"query"`
}

func c04Model(l c04Log, b *c04Built, q c04Query) c04Answer {
	switch q.Fn {
	case "latest":
		return c04ModelLatest(l, b.numbers, q)
	case "range", "rangeref":
		return c04ModelRange(l, b.numbers, q)
	case "first":
		return c04ModelFirst(l, b.numbers, "")
	case "firstref":
		return c04ModelFirst(l, b.numbers, q.Ref)
	case "nongittufparent":
		if q.Entry >= 0 && q.Entry < len(l.Entries) && l.unreadable(q.Entry) {
			return c04Answer{MustErr: true}
		}
		return c04ModelNonGittufParent(l, b.numbers, q.Entry)
	}
	return c04Answer{None: true}
}

func c04QueryClass(q c04Query) string {
	parts := []string{q.Fn}
	if q.Fn == "latest" {
		if q.BeforeIdx != -1 {
			parts = append(parts, "before-id")
		}
		if q.BeforeNum != 0 {
			parts = append(parts, "before-number")
		}
		if q.UntilIdx != -1 {
			parts = append(parts, "until-id")
		}
		if q.UntilNum != 0 {
			parts = append(parts, "until-number")
		}
	}
	return strings.Join(parts, "+")
}

func c04Judge(c *fw.Ctx, l c04Log, b *c04Built, q c04Query) {
	c04JudgeX(c, l, b, q, false)
}

// enumerated: the caller enumerates (log, query) pairs without repetition, so
// distinctness needs no hash set.
func c04JudgeX(c *fw.Ctx, l c04Log, b *c04Built, q c04Query, enumerated bool) {
	c.Eval(1)
	cs := c04Case{Log: l, Query: q}
	want := c04Model(l, b, q)
	hasCond := q.Fn != "latest" || q.Ref != "" || q.BeforeIdx != -1 || q.BeforeNum != 0 || q.UntilIdx != -1 || q.UntilNum != 0 || q.Unskipped || q.NonGittuf || q.Kind != ""
	if len(l.Entries) >= 2 && hasCond {
		if enumerated {
			c.NontrivialCounted(1)
		} else {
			c.Nontrivial(fw.Hash(l, q))
		}
	}
	c.Guard(cs, func() {
		es, as, err := c04Exec(b, l, q)
		attrs := map[string]string{"query": c04QueryClass(q), "corruption": l.Corrupt.Kind}
		switch {
		case want.MustErr:
			if err == nil {
				kind := "invalid-options-accepted"
				if l.Corrupt.Kind != "" {
					kind = "tampered-log-answered"
				}
				c.Violation(kind, attrs, fmt.Sprintf("an error was required, got entries %v", es), cs)
			} else {
				c.Count("must-error:agree", 1)
			}
		case want.None:
			if err == nil {
				c.Violation("answer-where-scan-has-none", attrs, fmt.Sprintf("the plain scan defines no answer, got entries %v", es), cs)
			} else {
				c.Count("none:agree", 1)
			}
		default:
			if err != nil {
				c.Violation("not-found-where-scan-has-answer", attrs, fmt.Sprintf("the plain scan yields entries %v, reader returned error: %v", want.Entries, err), cs)
				return
			}
			wantIDs := []string{}
			for _, i := range want.Entries {
				wantIDs = append(wantIDs, b.ids[i].String())
			}
			if strings.Join(wantIDs, ",") != strings.Join(es, ",") {
				c.Violation("wrong-entry", attrs, fmt.Sprintf("scan yields %v, reader returned %v (ids %v)", want.Entries, c04Idx(b, es), es), cs)
				return
			}
			for k := range want.Entries {
				w := []string{}
				for _, a := range want.Annots[k] {
					w = append(w, b.ids[a].String())
				}
				g := append([]string{}, as[k]...)
				if !strings.HasPrefix(q.Fn, "range") {
					sort.Strings(w)
					sort.Strings(g)
				}
				if strings.Join(w, ",") != strings.Join(g, ",") {
					c.Violation("wrong-annotations", attrs, fmt.Sprintf("entry %d: scan yields annotations %v, reader returned %v", want.Entries[k], want.Annots[k], c04Idx(b, as[k])), cs)
					return
				}
			}
			c.Count("answer:agree", 1)
		}
	})
}

func c04Idx(b *c04Built, ids []string) []int {
	out := []int{}
	for _, id := range ids {
		x := -9
		for i, h := range b.ids {
			if h.String() == id {
				x = i
			}
		}
		out = append(out, x)
	}
	return out
}

// ------------------------------------------------------------- generation

func c04Logs(maxLen int, visit func(l c04Log)) {
	var rec func(cur []c04Entry)
	rec = func(cur []c04Entry) {
		body := 0
		for _, e := range cur {
			if !e.Legacy {
				body++
			}
		}
		if body > 0 {
			visit(c04Log{Entries: append([]c04Entry{}, cur...)})
		}
		if body == maxLen {
			return
		}
		opts := []c04Entry{
			{Kind: "ref", Ref: c04RefA}, {Kind: "ref", Ref: c04RefB}, {Kind: "ref", Ref: c04Policy}, {Kind: "ref", Ref: c04Staging}, {Kind: "prop", Ref: c04RefA},
		}
		targets := []int{}
		for i, e := range cur {
			if e.Kind != "annot" {
				targets = append(targets, i)
			}
		}
		for i, t := range targets {
			for _, sk := range []bool{true, false} {
				opts = append(opts, c04Entry{Kind: "annot", Targets: []int{t}, Skip: sk})
				for _, t2 := range targets[i+1:] {
					opts = append(opts, c04Entry{Kind: "annot", Targets: []int{t, t2}, Skip: sk})
				}
			}
		}
		for _, o := range opts {
			rec(append(cur, o))
		}
	}
	for legacy := 0; legacy <= 2; legacy++ {
		pre := []c04Entry{}
		for i := 0; i < legacy; i++ {
			pre = append(pre, c04Entry{Kind: "ref", Ref: []string{c04RefA, c04Policy}[i%2], Legacy: true})
		}
		rec(pre)
	}
}

func c04AllLatestQueries(l c04Log, numbers []uint64, idBasedOnly bool, visit func(q c04Query)) {
	n := len(l.Entries)
	type bound struct{ idx, num int }
	bounds := []bound{{-1, 0}, {-2, 0}}
	for i := 0; i < n; i++ {
		bounds = append(bounds, bound{i, 0})
	}
	if !idBasedOnly {
		seen := map[uint64]bool{}
		for i := 0; i < n; i++ {
			if numbers[i] != 0 && !seen[numbers[i]] {
				seen[numbers[i]] = true
				bounds = append(bounds, bound{-1, int(numbers[i])})
			}
		}
		bounds = append(bounds, bound{-1, 99})
	}
	for _, ref := range []string{"", c04RefA, c04RefB, c04Policy} {
		for _, bf := range bounds {
			for _, un := range bounds {
				for _, unsk := range []bool{false, true} {
					for _, ng := range []bool{false, true} {
						for _, kind := range []string{"", "ref", "propX", "propY"} {
							visit(c04Query{Fn: "latest", Ref: ref, BeforeIdx: bf.idx, BeforeNum: bf.num, UntilIdx: un.idx, UntilNum: un.num, Unskipped: unsk, NonGittuf: ng, Kind: kind})
						}
					}
				}
			}
		}
	}
	// invalid combinations
	if n > 0 && !idBasedOnly {
		visit(c04Query{Fn: "latest", BeforeIdx: 0, BeforeNum: 1, UntilIdx: -1})
		visit(c04Query{Fn: "latest", BeforeIdx: -1, UntilIdx: 0, UntilNum: 1})
		visit(c04Query{Fn: "latest", BeforeIdx: -1, UntilIdx: -1, Kind: "ref+prop"})
	}
}

func c04OtherQueries(l c04Log, visit func(q c04Query)) {
	n := len(l.Entries)
	for f := -2; f < n; f++ {
		if f == -1 {
			continue
		}
		for la := -2; la < n; la++ {
			if la == -1 {
				continue
			}
			if f == -2 || la == -2 {
				// absent ids: the model says "none"
				visit(c04Query{Fn: "range", First: f, Last: la, BeforeIdx: -1, UntilIdx: -1})
				continue
			}
			visit(c04Query{Fn: "range", First: f, Last: la, BeforeIdx: -1, UntilIdx: -1})
			for _, ref := range []string{c04RefA, c04Policy} {
				visit(c04Query{Fn: "rangeref", Ref: ref, First: f, Last: la, BeforeIdx: -1, UntilIdx: -1})
			}
		}
	}
	visit(c04Query{Fn: "first", BeforeIdx: -1, UntilIdx: -1})
	for _, ref := range []string{c04RefA, c04RefB, c04Policy, "refs/heads/none"} {
		visit(c04Query{Fn: "firstref", Ref: ref, BeforeIdx: -1, UntilIdx: -1})
	}
	for e := 0; e < n; e++ {
		visit(c04Query{Fn: "nongittufparent", Entry: e, BeforeIdx: -1, UntilIdx: -1})
	}
}

func runC04(c *fw.Ctx) {
	maxLen := c.Pick(3, 4)
	idx := 0
	c04Logs(maxLen, func(l c04Log) {
		mine := c.Mine(idx)
		idx++
		if !mine {
			return
		}
		rsl.VerifResetCache()
		b := c04Build(l)
		qi := 0
		c04AllLatestQueries(l, b.numbers, false, func(q c04Query) {
			qi++
			// quick tier: the (non-gittuf, kind) dimensions are covered by rotation
			// (each (ref, before, until, unskipped) cell gets one of the 8 combinations);
			// thorough enumerates the full cross product
			if c.Quick() && (q.BeforeIdx != -1 || q.BeforeNum != 0) && (q.UntilIdx != -1 || q.UntilNum != 0) {
				cell := qi / 8
				if qi%8 != cell%8 {
					return
				}
			}
			c04JudgeX(c, l, b, q, true)
		})
		c04OtherQueries(l, func(q c04Query) { c04JudgeX(c, l, b, q, true) })
		if idx%4 == 0 {
			// warm pass: the same queries again with the process-wide cache populated
			c04OtherQueries(l, func(q c04Query) { c04Judge(c, l, b, q) })
		}
		c.SetAdd("logs", fw.Hash(l))
		// single-point corruptions
		for at := 0; at < len(l.Entries); at++ {
			for _, kind := range []string{"extra-parent", "gap", "dup", "garbage", "non-rsl"} {
				if (kind == "gap" || kind == "dup") && (l.Entries[at].Legacy || at == 0) {
					continue
				}
				cl := c04Log{Entries: l.Entries, Corrupt: c04Corruption{Kind: kind, At: at}}
				cb := c04Build(cl)
				if kind == "dup" && cb.numbers[at] == cb.numbers[at-1]+1 {
					continue
				}
				c04AllLatestQueriesSubset(cl, func(q c04Query) { c04JudgeX(c, cl, cb, q, true) })
				c04OtherQueries(cl, func(q c04Query) { c04JudgeX(c, cl, cb, q, true) })
				c.SetAdd("corrupted_logs", fw.Hash(cl))
			}
		}
		if idx%200 == 0 {
			c.Sample(map[string]any{"log": l})
		}
	})
	// one level deeper, sampled queries
	r := c.Rand(uint64(400 + c.Shard))
	idx2 := 0
	c04Logs(maxLen+1, func(l c04Log) {
		body := 0
		for _, e := range l.Entries {
			if !e.Legacy {
				body++
			}
		}
		if body != maxLen+1 {
			return
		}
		mine := c.Mine(idx2)
		idx2++
		if !mine || r.IntN(c.Pick(6, 2)) != 0 {
			return
		}
		rsl.VerifResetCache()
		b := c04Build(l)
		qs := []c04Query{}
		c04AllLatestQueries(l, b.numbers, false, func(q c04Query) { qs = append(qs, q) })
		for i := 0; i < 150; i++ {
			c04Judge(c, l, b, qs[r.IntN(len(qs))])
		}
		c04OtherQueries(l, func(q c04Query) { c04Judge(c, l, b, q) })
	})
	// long random logs
	nLong := c.Pick(200, 20000) / c.NShards
	for i := 0; i < nLong; i++ {
		l := c04RandomLog(r, 8+r.IntN(33))
		rsl.VerifResetCache()
		b := c04Build(l)
		qs := []c04Query{}
		c04AllLatestQueries(l, b.numbers, false, func(q c04Query) { qs = append(qs, q) })
		for k := 0; k < 300; k++ {
			c04Judge(c, l, b, qs[r.IntN(len(qs))])
		}
		n := len(l.Entries)
		for k := 0; k < 40; k++ {
			f, la := r.IntN(n), r.IntN(n)
			if r.IntN(2) == 0 {
				c04Judge(c, l, b, c04Query{Fn: "range", First: f, Last: la, BeforeIdx: -1, UntilIdx: -1})
			} else {
				c04Judge(c, l, b, c04Query{Fn: "rangeref", Ref: c04RefA, First: f, Last: la, BeforeIdx: -1, UntilIdx: -1})
			}
		}
	}
}

// id-based subset used on corrupted logs (numbers are ambiguous there)
func c04AllLatestQueriesSubset(l c04Log, visit func(q c04Query)) {
	n := len(l.Entries)
	bounds := []int{-1}
	for i := 0; i < n; i++ {
		bounds = append(bounds, i)
	}
	for _, ref := range []string{"", c04RefA, c04Policy} {
		for _, bf := range bounds {
			for _, un := range bounds {
				for _, unsk := range []bool{false, true} {
					visit(c04Query{Fn: "latest", Ref: ref, BeforeIdx: bf, UntilIdx: un, Unskipped: unsk})
				}
			}
		}
	}
}

func c04RandomLog(r *rand.Rand, n int) c04Log {
	l := c04Log{}
	legacy := r.IntN(3)
	for i := 0; i < n; i++ {
		var e c04Entry
		targets := []int{}
		for j, x := range l.Entries {
			if x.Kind != "annot" {
				targets = append(targets, j)
			}
		}
		switch x := r.IntN(10); {
		case x < 5 || len(targets) == 0:
			e = c04Entry{Kind: "ref", Ref: []string{c04RefA, c04RefB, c04Policy, c04Staging}[r.IntN(4)]}
		case x < 6:
			e = c04Entry{Kind: "prop", Ref: c04RefA}
		default:
			t := []int{targets[r.IntN(len(targets))]}
			if r.IntN(3) == 0 {
				t2 := targets[r.IntN(len(targets))]
				if t2 != t[0] {
					t = append(t, t2)
				}
			}
			e = c04Entry{Kind: "annot", Targets: t, Skip: r.IntN(2) == 0}
		}
		if i < legacy && e.Kind != "annot" {
			e.Legacy = true
		}
		if i < legacy && e.Kind == "annot" {
			e = c04Entry{Kind: "ref", Ref: c04RefA, Legacy: true}
		}
		l.Entries = append(l.Entries, e)
	}
	return l
}

// raceC04: parallel readers on one store under the race detector; answers
// must equal the sequential ones.
func raceC04(c *fw.Ctx) {
	r := c.Rand(uint64(440 + c.Shard))
	n := c.Pick(30, 400) / c.NShards
	for i := 0; i < n; i++ {
		l := c04RandomLog(r, 6+r.IntN(12))
		rsl.VerifResetCache()
		b := c04Build(l)
		qs := []c04Query{}
		c04AllLatestQueries(l, b.numbers, false, func(q c04Query) { qs = append(qs, q) })
		pick := []c04Query{}
		for k := 0; k < 200; k++ {
			pick = append(pick, qs[r.IntN(len(qs))])
		}
		var wg sync.WaitGroup
		for g := 0; g < 4; g++ {
			wg.Add(1)
			go func(g int) {
				defer wg.Done()
				for k := g; k < len(pick); k += 2 {
					c04Judge(c, l, b, pick[k])
				}
			}(g)
		}
		wg.Wait()
		c.Count("race_logs", 1)
	}
}

func replayC04(c *fw.Ctx, raw json.RawMessage) error {
	var cs c04Case
	if err := json.Unmarshal(raw, &cs); err != nil {
		return err
	}
	if len(cs.Log.Entries) == 0 {
		var w struct {
			Case c04Case `json:"case"`
		}
		if err := json.Unmarshal(raw, &w); err == nil {
			cs = w.Case
		}
	}
	b := c04Build(cs.Log)
	for i, e := range cs.Log.Entries {
		fmt.Printf("  %d: %+v number=%d id=%s\n", i, e, b.numbers[i], b.ids[i].String()[:8])
	}
	fmt.Printf("corruption: %+v\nquery: %+v\nmodel: %+v\n", cs.Log.Corrupt, cs.Query, c04Model(cs.Log, b, cs.Query))
	es, as, err := c04Exec(b, cs.Log, cs.Query)
	fmt.Printf("reader: entries=%v annots=%v err=%v\n", c04Idx(b, es), as, err)
	c04Judge(c, cs.Log, b, cs.Query)
	return nil
}
