package checks

import (
	"encoding/base64"
	"fmt"
	policyopts "github.com/gittuf/gittuf/internal/policy/options/policy"
	"github.com/gittuf/gittuf/internal/tuf"
	"os"
	"sync/atomic"

	"github.com/gittuf/gittuf/internal/verifharness/fw"
	"github.com/gittuf/gittuf/internal/verifharness/scen"
	"github.com/gittuf/gittuf/pkg/gitstore"
)

type treeEntry = gitstore.TreeEntry

const kindSubtree = gitstore.KindSubtree

var scratchCounter atomic.Int64

// newScratchGit creates a fresh bare repository in the shard's work dir; the
// returned cleanup removes it and its key files.
func newScratchGit(c *fw.Ctx, prefix string) (*scen.Git, func(), error) {
	n := scratchCounter.Add(1)
	dir := c.Scratch(fmt.Sprintf("%s-%d", prefix, n))
	repo := dir + "/repo.git"
	g, err := scen.NewGit(repo, true)
	if err != nil {
		os.RemoveAll(dir)
		return nil, func() {}, err
	}
	return g, func() { os.RemoveAll(dir) }, nil
}

// newScratchWorktreeGit is the same with a worktree (non-bare).
func newScratchWorktreeGit(c *fw.Ctx, prefix string) (*scen.Git, func(), error) {
	n := scratchCounter.Add(1)
	dir := c.Scratch(fmt.Sprintf("%s-%d", prefix, n))
	repo := dir + "/repo"
	g, err := scen.NewGit(repo, false)
	if err != nil {
		os.RemoveAll(dir)
		return nil, func() {}, err
	}
	return g, func() { os.RemoveAll(dir) }, nil
}

func decodeB64(s string) string {
	b, err := base64.StdEncoding.DecodeString(s)
	if err != nil {
		return ""
	}
	return string(b)
}

func removeAll(dir string) error { return os.RemoveAll(dir) }

type tufPrincipal = tuf.Principal

func bypassRSL() policyopts.LoadStateOption { return policyopts.BypassRSL() }
