package checks

import (
	"encoding/json"
	"errors"
	"fmt"
	"math/rand/v2"
	"sort"
	"strings"
	"time"

	"github.com/gittuf/gittuf/internal/policy"
	"github.com/gittuf/gittuf/internal/tuf"
	"github.com/gittuf/gittuf/internal/verifharness/fw"
	"github.com/gittuf/gittuf/internal/verifharness/oracle"
	"github.com/gittuf/gittuf/internal/verifharness/scen"
)

// C06 — rules consulted for a path are exactly those of the documented delegation walk.

func init() {
	fw.Register(&fw.Check{
		ID:    "C06",
		Level: "exploration",
		Rule: "delegation graphs (primary file + up to 3 delegated files, up to 3 rules each; patterns from literal / prefix* / * over git: and file:; any terminating flags; rule names reused across files = diamond, a rule named like an ancestor file or 'targets' = cycle) x a covering path set (one per pattern class + a path nothing matches). " +
			"Exhaustive core: 2 top rules x 4 patterns x terminating x {no file | file with 1 rule x 4 patterns x terminating}. Each graph is committed, loaded with LoadStateFromCommit, FindVerifiersForPath called twice per path; compared as a set of (rule name, threshold, principal ids) with the documented pre-order walk. " +
			"distinct = hash(graph, path); non-trivial = at least one rule matches the path and the graph has a delegated file",
		Assumptions: []string{
			"patterns restricted to literal / prefix* / * so that the oracle needs no fnmatch implementation",
			"order of the returned verifiers is not asserted (the statement fixes the set of consulted rules)",
		},
		MinNontrivial: 2000,
		Exhaustive: func(tier string) (bool, string) {
			return true, "primary file with 2 rules, each over 4 patterns x terminating x {no delegated file | delegated file with one rule over 4 patterns x terminating}, 7 paths"
		},
		Run:    runC06,
		Replay: replayC06,
	})
}

var c06Paths = []string{"git:refs/heads/main", "git:refs/heads/feature", "git:refs/tags/v1", "file:src/a.go", "file:README", "file:docs/x", "other:thing"}
var c06Patterns = []string{"git:refs/heads/main", "git:refs/heads/*", "*", "file:src/*", "file:README", "file:*", "git:*"}

type c06Case struct {
	Policy scen.Policy `json:"policy"`
	Path   string      `json:"path"`
}

func c06Principals() []scen.Principal {
	return []scen.Principal{keyPrincipal("k1"), keyPrincipal("k2"), keyPrincipal("k3")}
}

func c06Policy(files []scen.RuleFile) scen.Policy {
	return scen.Policy{
		RootPrincipals: []scen.Principal{rootPrincipal}, RootThreshold: 1, RootSigners: []string{"root"},
		TargetsPrincipals: []scen.Principal{rootPrincipal}, TargetsThreshold: 1,
		Files: files,
	}
}

func runC06(c *fw.Ctx) {
	store := scen.NewMem()
	idx := 0
	// exhaustive core
	pats := []string{"git:refs/heads/main", "git:refs/heads/*", "*", "file:README"}
	type topOpt struct {
		pat   string
		term  bool
		deleg int // 0 none, else 1 + pattern index*2 + term
	}
	opts := []topOpt{}
	for _, p := range pats {
		for _, t := range []bool{false, true} {
			opts = append(opts, topOpt{p, t, 0})
			for d := 0; d < 8; d++ {
				opts = append(opts, topOpt{p, t, 1 + d})
			}
		}
	}
	for _, a := range opts {
		for _, b := range opts {
			mine := c.Mine(idx)
			idx++
			if !mine {
				continue
			}
			files := []scen.RuleFile{{Name: "targets", Principals: c06Principals()}}
			for i, o := range []topOpt{a, b} {
				name := fmt.Sprintf("r%d", i+1)
				files[0].Rules = append(files[0].Rules, scen.Rule{Name: name, Patterns: []string{o.pat}, Principals: []string{"P1"}, Threshold: 1, Terminating: o.term})
				if o.deleg > 0 {
					d := o.deleg - 1
					files = append(files, scen.RuleFile{Name: name, Principals: c06Principals(), Rules: []scen.Rule{{Name: name + "-inner", Patterns: []string{pats[d/2]}, Principals: []string{"P2", "P3"}, Threshold: 2, Terminating: d%2 == 1}}})
				}
			}
			c06Judge(c, store, c06Policy(files))
		}
	}
	// sampled graphs with up to 4 files x 3 rules, name reuse allowed
	r := c.Rand(uint64(600 + c.Shard))
	n := c.Pick(2500, 150000) / c.NShards
	for i := 0; i < n; i++ {
		c06Judge(c, store, c06RandomGraph(r))
	}
}

func c06RandomGraph(r *rand.Rand) scen.Policy {
	names := []string{"r1", "r2", "r3", "r4", "r5", "r6", "r7", "r8", "r9"}
	reuse := r.IntN(6) == 0
	next := 0
	newName := func() string {
		if reuse && next > 0 && r.IntN(3) == 0 {
			if r.IntN(4) == 0 {
				return "targets"
			}
			return names[r.IntN(next)]
		}
		n := names[next%len(names)]
		next++
		return n
	}
	mkRules := func() []scen.Rule {
		k := 1 + r.IntN(3)
		out := []scen.Rule{}
		for i := 0; i < k; i++ {
			np := 1 + r.IntN(2)
			ps := []string{}
			for j := 0; j < np; j++ {
				ps = append(ps, c06Patterns[r.IntN(len(c06Patterns))])
			}
			prs := [][]string{{"P1"}, {"P2"}, {"P1", "P2"}, {"P1", "P2", "P3"}}[r.IntN(4)]
			out = append(out, scen.Rule{Name: newName(), Patterns: ps, Principals: prs, Threshold: 1 + r.IntN(len(prs)), Terminating: r.IntN(3) == 0})
		}
		return out
	}
	files := []scen.RuleFile{{Name: "targets", Principals: c06Principals(), Rules: mkRules()}}
	have := map[string]bool{"targets": true}
	// delegated files hang off rules of earlier files
	for len(files) < 1+r.IntN(4) {
		parent := files[r.IntN(len(files))]
		if len(parent.Rules) == 0 {
			break
		}
		rule := parent.Rules[r.IntN(len(parent.Rules))]
		if have[rule.Name] {
			if r.IntN(3) == 0 {
				break
			}
			continue
		}
		have[rule.Name] = true
		rules := mkRules()
		if r.IntN(5) == 0 {
			rules = nil // a delegated rule file that declares no rules (only the allow rule)
		}
		files = append(files, scen.RuleFile{Name: rule.Name, Principals: c06Principals(), Rules: rules})
	}
	return c06Policy(files)
}

func c06DupNames(p scen.Policy) bool {
	seen := map[string]bool{}
	for _, f := range p.Files {
		for _, r := range f.Rules {
			if seen[r.Name] {
				return true
			}
			seen[r.Name] = true
		}
	}
	return false
}

type c06Item struct {
	Name      string
	Threshold int
	IDs       string
}

func c06Judge(c *fw.Ctx, store *scen.Mem, p scen.Policy) {
	st, err := p.BuildState()
	if err != nil {
		c.Eval(1)
		c.Inconclusive("build: " + trunc(err.Error(), 40))
		return
	}
	mdTree, err := st.Metadata.WriteTree(store)
	if err != nil {
		c.Inconclusive("write tree")
		return
	}
	root, _ := store.WriteTree([]treeEntry{{Path: "metadata", ID: mdTree, Kind: kindSubtree}})
	pc := store.CreateCommit(root, nil, "policy", nil)
	dup := c06DupNames(p)
	idx := p.PrincipalIndex()
	hasDeleg := len(p.Files) > 1
	for _, path := range c06Paths {
		c.Eval(1)
		cs := c06Case{Policy: p, Path: path}
		c.Guard(cs, func() {
			loaded, lerr := policy.LoadStateFromCommit(store, pc)
			if lerr != nil {
				if dup && errors.Is(lerr, tuf.ErrDuplicatedRuleName) {
					c.Count("refused:duplicate-rule-name", 1)
					return
				}
				c.Violation("load-failed", map[string]string{"error": trunc(lerr.Error(), 40)}, "well-formed delegation graph refused at load: "+lerr.Error(), cs)
				return
			}
			want := oracle.Consulted(p, path)
			wantItems := []c06Item{}
			for _, cr := range want {
				ids := []string{}
				for _, pid := range cr.Rule.Principals {
					ids = append(ids, idx[pid].TufID())
				}
				sort.Strings(ids)
				wantItems = append(wantItems, c06Item{cr.Rule.Name, cr.Rule.Threshold, strings.Join(ids, ",")})
			}
			if len(want) > 0 && hasDeleg {
				c.Nontrivial(fw.Hash(p, path))
			}
			for round := 0; round < 2; round++ {
				type res struct {
					vs  []*policy.SignatureVerifier
					err error
				}
				ch := make(chan res, 1)
				go func() {
					vs, err := loaded.FindVerifiersForPath(path)
					ch <- res{vs, err}
				}()
				var got res
				select {
				case got = <-ch:
				case <-time.After(60 * time.Second):
					c.Violation("walk-does-not-terminate", nil, "FindVerifiersForPath still running after 60 s", cs)
					return
				}
				if got.err != nil {
					c.Violation("walk-error", map[string]string{"error": trunc(got.err.Error(), 40)}, "FindVerifiersForPath failed: "+got.err.Error(), cs)
					return
				}
				gotItems := []c06Item{}
				for _, v := range got.vs {
					ids := v.TrustedPrincipalIDs().Contents()
					sort.Strings(ids)
					gotItems = append(gotItems, c06Item{v.Name(), v.Threshold(), strings.Join(ids, ",")})
				}
				if d := c06Diff(wantItems, gotItems); d != "" {
					kind := "walk-mismatch"
					attrs := map[string]string{"call": fmt.Sprint(round + 1), "direction": d[:strings.Index(d, ":")]}
					c.Violation(kind, attrs, fmt.Sprintf("path %s: documented walk consults %v, FindVerifiersForPath returned %v (%s)", path, wantItems, gotItems, d), cs)
					return
				}
				if (len(got.vs) == 0) != (len(want) == 0) {
					c.Violation("protection-status-wrong", nil, fmt.Sprintf("path %s: reported unprotected=%v, walk says %v", path, len(got.vs) == 0, len(want) == 0), cs)
					return
				}
			}
			c.Count("agree", 1)
			if len(want) > 1 && hasDeleg {
				c.Sample(map[string]any{"path": path, "consulted": wantItems, "files": len(p.Files)})
			}
		})
	}
}

func c06Diff(want, got []c06Item) string {
	key := func(i c06Item) string { return fmt.Sprintf("%s|%d|%s", i.Name, i.Threshold, i.IDs) }
	w, g := map[string]int{}, map[string]int{}
	for _, i := range want {
		w[key(i)]++
	}
	for _, i := range got {
		g[key(i)]++
	}
	for k, n := range w {
		if g[k] < n {
			return "missing: " + k
		}
	}
	for k, n := range g {
		if w[k] < n {
			return "extra: " + k
		}
	}
	return ""
}

func replayC06(c *fw.Ctx, raw json.RawMessage) error {
	var cs c06Case
	if err := json.Unmarshal(raw, &cs); err != nil {
		return err
	}
	if len(cs.Policy.Files) == 0 {
		var w struct {
			Case c06Case `json:"case"`
		}
		if err := json.Unmarshal(raw, &w); err == nil {
			cs = w.Case
		}
	}
	for _, f := range cs.Policy.Files {
		fmt.Printf("file %s:\n", f.Name)
		for _, r := range f.Rules {
			fmt.Printf("   rule %s patterns=%v principals=%v thr=%d terminating=%v\n", r.Name, r.Patterns, r.Principals, r.Threshold, r.Terminating)
		}
	}
	c06Judge(c, scen.NewMem(), cs.Policy)
	return nil
}
