package checks

import (
	"encoding/json"
	"fmt"
	"math/rand/v2"
	"sort"
	"strings"

	"github.com/gittuf/gittuf/internal/tuf"
	"github.com/gittuf/gittuf/internal/tuf/migrations"
	tufv01 "github.com/gittuf/gittuf/internal/tuf/v01"
	tufv02 "github.com/gittuf/gittuf/internal/tuf/v02"
	"github.com/gittuf/gittuf/internal/verifharness/fw"
	"github.com/gittuf/gittuf/internal/verifharness/keys"
)

// C13 — policy metadata stays well formed under edits, serialization and migration.
//
// In-process on the tuf v01/v02 metadata objects. After every edit an
// invariant monitor inspects the metadata through its exported accessors; a
// refused edit must leave the JSON serialisation byte-identical; and
// Unmarshal(Marshal(m)) / Migrate(v01 m) must answer every query like m.

func init() {
	fw.Register(&fw.Check{
		ID:    "C13",
		Level: "exploration",
		Rule: "random sequences (length <= 25) of AddRule/UpdateRule/RemoveRule/ReorderRules/AddPrincipal/UpdatePrincipal/RemovePrincipal on rule files and of root mutators (root/primary-rule-file principals and thresholds, global rules, propagation directives, controller/network repositories, hooks, GitHub apps) with valid and invalid arguments (reserved-prefix names, unknown principals, duplicate principal ids, thresholds <= 0 or > |principals|, duplicate names, the allow rule in a reorder), both schema versions. " +
			"distinct = hash of the operation sequence; non-trivial = the sequence contains at least one accepted and one refused edit",
		Assumptions: []string{
			"cross-file rule-name uniqueness is checked through the repository API on real git (c13api.go): a few API sequences per shard",
		},
		MinNontrivial: 2000,
		Run:           runC13,
		Replay:        replayC13,
	})
}

type c13Op struct {
	Op   string   `json:"op"`
	Name string   `json:"name,omitempty"`
	IDs  []string `json:"ids,omitempty"`
	Pats []string `json:"pats,omitempty"`
	N    int      `json:"n,omitempty"`
}

type c13Case struct {
	Kind    string  `json:"kind"` // targets | root
	Version string  `json:"version"`
	Ops     []c13Op `json:"ops"`
	At      int     `json:"at"`
}

var c13Keys = []string{"k1", "k2", "k3", "k4"}

func c13Principal(version string, name string, r *rand.Rand) tuf.Principal {
	a := keys.Get(name)
	if version == "v01" {
		return a.KeyPrincipalV01()
	}
	if r != nil && r.IntN(3) == 0 {
		return keys.Person("person-"+name, map[string]string{"app": "user-" + name}, a)
	}
	return a.KeyPrincipal()
}

func c13PrincipalID(version, name string, person bool) string {
	if person && version == "v02" {
		return "person-" + name
	}
	return keys.Get(name).KeyID
}

var c13Paths = []string{"git:refs/heads/main", "git:refs/heads/x", "file:a", "file:src/b", "other"}

func dumpTargets(t tuf.TargetsMetadata) string {
	var sb strings.Builder
	fmt.Fprintf(&sb, "version=%d\n", t.GetVersion())
	prs := t.GetPrincipals()
	ids := make([]string, 0, len(prs))
	for id := range prs {
		ids = append(ids, id)
	}
	sort.Strings(ids)
	for _, id := range ids {
		ks := []string{}
		for _, k := range prs[id].Keys() {
			ks = append(ks, k.KeyID)
		}
		sort.Strings(ks)
		fmt.Fprintf(&sb, "principal %s id=%s keys=%v custom=%v\n", id, prs[id].ID(), ks, sortedMap(prs[id].CustomMetadata()))
	}
	for _, r := range t.GetRules() {
		pids := []string{}
		if r.GetPrincipalIDs() != nil {
			pids = r.GetPrincipalIDs().Contents()
		}
		sort.Strings(pids)
		m := []bool{}
		for _, p := range c13Paths {
			m = append(m, r.Matches(p))
		}
		fmt.Fprintf(&sb, "rule %s ns=%v ids=%v thr=%d last=%v matches=%v\n", r.ID(), r.GetProtectedNamespaces(), pids, r.GetThreshold(), r.IsLastTrustedInRuleFile(), m)
	}
	return sb.String()
}

func sortedMap(m map[string]string) string {
	ks := make([]string, 0, len(m))
	for k := range m {
		ks = append(ks, k)
	}
	sort.Strings(ks)
	out := []string{}
	for _, k := range ks {
		out = append(out, k+"="+m[k])
	}
	return strings.Join(out, ",")
}

func principalIDs(ps []tuf.Principal) []string {
	out := []string{}
	for _, p := range ps {
		if p == nil {
			out = append(out, "<nil>")
			continue
		}
		out = append(out, p.ID())
	}
	sort.Strings(out)
	return out
}

func dumpRoot(r tuf.RootMetadata) string {
	var sb strings.Builder
	fmt.Fprintf(&sb, "version=%d location=%s controller=%v\n", r.GetVersion(), r.GetRepositoryLocation(), r.IsController())
	prs := r.GetPrincipals()
	ids := make([]string, 0, len(prs))
	for id := range prs {
		ids = append(ids, id)
	}
	sort.Strings(ids)
	fmt.Fprintf(&sb, "principals=%v\n", ids)
	rp, err := r.GetRootPrincipals()
	rt, err2 := r.GetRootThreshold()
	fmt.Fprintf(&sb, "root=%v thr=%d err=%v/%v\n", principalIDs(rp), rt, err, err2)
	tp, err := r.GetPrimaryRuleFilePrincipals()
	tt, err2 := r.GetPrimaryRuleFileThreshold()
	fmt.Fprintf(&sb, "targets=%v thr=%d err=%v/%v\n", principalIDs(tp), tt, err, err2)
	for _, g := range r.GetGlobalRules() {
		switch g := g.(type) {
		case tuf.GlobalRuleThreshold:
			fmt.Fprintf(&sb, "global threshold %s %v %d\n", g.GetName(), g.GetProtectedNamespaces(), g.GetThreshold())
		case tuf.GlobalRuleBlockForcePushes:
			fmt.Fprintf(&sb, "global bfp %s %v\n", g.GetName(), g.GetProtectedNamespaces())
		default:
			fmt.Fprintf(&sb, "global unknown %s\n", g.GetName())
		}
	}
	for _, d := range r.GetPropagationDirectives() {
		fmt.Fprintf(&sb, "propagation %s %s %s %s %s %s\n", d.GetName(), d.GetUpstreamRepository(), d.GetUpstreamReference(), d.GetUpstreamPath(), d.GetDownstreamReference(), d.GetDownstreamPath())
	}
	for _, o := range r.GetControllerRepositories() {
		fmt.Fprintf(&sb, "controller-repo %s %s %v\n", o.GetName(), o.GetLocation(), principalIDs(o.GetInitialRootPrincipals()))
	}
	for _, o := range r.GetNetworkRepositories() {
		fmt.Fprintf(&sb, "network-repo %s %s %v\n", o.GetName(), o.GetLocation(), principalIDs(o.GetInitialRootPrincipals()))
	}
	for _, stage := range []tuf.HookStage{tuf.HookStagePreCommit, tuf.HookStagePrePush} {
		hooks, err := r.GetHooks(stage)
		fmt.Fprintf(&sb, "hooks %s err=%v\n", stage.String(), err)
		for _, h := range hooks {
			pids := h.GetPrincipalIDs().Contents()
			sort.Strings(pids)
			fmt.Fprintf(&sb, "  hook %s %v %v %s %d\n", h.ID(), pids, sortedMap(h.GetHashes()), h.GetEnvironment().String(), h.GetTimeout())
		}
	}
	apps, err := r.GetGitHubAppEntries()
	names := []string{}
	for n := range apps {
		names = append(names, n)
	}
	sort.Strings(names)
	for _, n := range names {
		a := apps[n]
		pids := append([]string{}, a.GetPrincipalIDs()...)
		sort.Strings(pids)
		fmt.Fprintf(&sb, "app %s %v %d trusted=%v/%v\n", n, pids, a.GetThreshold(), a.IsTrusted(), r.IsGitHubAppApprovalTrusted(n))
	}
	_ = err
	return sb.String()
}

// ---- invariants

func c13CheckTargets(t tuf.TargetsMetadata) string {
	rules := t.GetRules()
	if len(rules) == 0 {
		return "no rules at all (allow rule missing)"
	}
	allow := 0
	for i, r := range rules {
		if r.ID() == tuf.AllowRuleName {
			allow++
			if i != len(rules)-1 {
				return "allow rule is not last"
			}
			continue
		}
		if strings.HasPrefix(r.ID(), tuf.GittufPrefix) {
			return "user rule with reserved prefix: " + r.ID()
		}
		n := 0
		if r.GetPrincipalIDs() != nil {
			n = r.GetPrincipalIDs().Len()
			for _, id := range r.GetPrincipalIDs().Contents() {
				if _, ok := t.GetPrincipals()[id]; !ok {
					return fmt.Sprintf("rule %s names undefined principal %s", r.ID(), id)
				}
			}
		}
		if r.GetThreshold() < 1 {
			return fmt.Sprintf("rule %s has threshold %d", r.ID(), r.GetThreshold())
		}
		if r.GetThreshold() > n {
			return fmt.Sprintf("rule %s has threshold %d but only %d distinct principals", r.ID(), r.GetThreshold(), n)
		}
	}
	if allow != 1 {
		return fmt.Sprintf("allow rule occurs %d times", allow)
	}
	if rules[len(rules)-1].ID() != tuf.AllowRuleName {
		return "last rule is not the allow rule"
	}
	return ""
}

func c13CheckRoot(r tuf.RootMetadata, haveRoot, haveTargets bool) string {
	prs := r.GetPrincipals()
	if haveRoot {
		rp, err := r.GetRootPrincipals()
		rt, err2 := r.GetRootThreshold()
		if err != nil || err2 != nil {
			return fmt.Sprintf("root role unreadable: %v %v", err, err2)
		}
		if rt < 1 || rt > len(rp) {
			return fmt.Sprintf("root threshold %d with %d principals", rt, len(rp))
		}
		for _, p := range rp {
			if p == nil {
				return "root role names an undefined principal"
			}
			if _, ok := prs[p.ID()]; !ok {
				return "root role names an undefined principal " + p.ID()
			}
		}
	}
	if haveTargets {
		tp, err := r.GetPrimaryRuleFilePrincipals()
		tt, err2 := r.GetPrimaryRuleFileThreshold()
		if err != nil || err2 != nil {
			return fmt.Sprintf("primary rule file role unreadable: %v %v", err, err2)
		}
		if tt < 1 || tt > len(tp) {
			return fmt.Sprintf("primary rule file threshold %d with %d principals", tt, len(tp))
		}
		for _, p := range tp {
			if p == nil {
				return "primary rule file role names an undefined principal"
			}
		}
	}
	apps, _ := r.GetGitHubAppEntries()
	for n, a := range apps {
		if a.GetThreshold() < 1 || a.GetThreshold() > len(a.GetPrincipalIDs()) {
			return fmt.Sprintf("app %s threshold %d with %d principals", n, a.GetThreshold(), len(a.GetPrincipalIDs()))
		}
		for _, id := range a.GetPrincipalIDs() {
			if _, ok := prs[id]; !ok {
				return fmt.Sprintf("app %s names undefined principal", n)
			}
		}
	}
	names := map[string]bool{}
	for _, g := range r.GetGlobalRules() {
		if names[g.GetName()] {
			return "duplicate global rule name " + g.GetName()
		}
		names[g.GetName()] = true
		if t, ok := g.(tuf.GlobalRuleThreshold); ok && t.GetThreshold() < 1 {
			return fmt.Sprintf("global rule %s has threshold %d", g.GetName(), t.GetThreshold())
		}
	}
	return ""
}

// ---- targets driver

func newTargets(version string) tuf.TargetsMetadata {
	if version == "v01" {
		return tufv01.NewTargetsMetadata()
	}
	return tufv02.NewTargetsMetadata()
}

func reloadTargets(version string, t tuf.TargetsMetadata) (tuf.TargetsMetadata, error) {
	b, err := json.Marshal(t)
	if err != nil {
		return nil, err
	}
	if version == "v01" {
		n := &tufv01.TargetsMetadata{}
		return n, json.Unmarshal(b, n)
	}
	n := &tufv02.TargetsMetadata{}
	return n, json.Unmarshal(b, n)
}

func c13GenTargetsOp(r *rand.Rand, version string, ruleNames []string) c13Op {
	name := func() string {
		switch r.IntN(10) {
		case 0:
			return tuf.AllowRuleName
		case 1:
			return "gittuf-custom"
		case 2:
			return ""
		default:
			return fmt.Sprintf("rule%d", r.IntN(5))
		}
	}
	idList := func() []string {
		n := r.IntN(4)
		out := []string{}
		for i := 0; i < n; i++ {
			switch r.IntN(8) {
			case 0:
				out = append(out, "unknown-principal")
			case 1:
				if len(out) > 0 {
					out = append(out, out[0]) // duplicate id in one list
					continue
				}
				fallthrough
			default:
				out = append(out, c13Keys[r.IntN(len(c13Keys))])
			}
		}
		return out
	}
	pats := func() []string {
		all := []string{"git:refs/heads/main", "git:refs/heads/*", "file:*", "file:src/*", "*"}
		return []string{all[r.IntN(len(all))]}
	}
	switch r.IntN(9) {
	case 0, 1:
		return c13Op{Op: "AddRule", Name: name(), IDs: idList(), Pats: pats(), N: r.IntN(5) - 1}
	case 2:
		return c13Op{Op: "UpdateRule", Name: name(), IDs: idList(), Pats: pats(), N: r.IntN(5) - 1}
	case 3:
		return c13Op{Op: "RemoveRule", Name: name()}
	case 4:
		order := append([]string{}, ruleNames...)
		r.Shuffle(len(order), func(i, j int) { order[i], order[j] = order[j], order[i] })
		switch r.IntN(5) {
		case 0:
			order = append(order, tuf.AllowRuleName)
		case 1:
			if len(order) > 0 {
				order = order[1:]
			}
		case 2:
			if len(order) > 0 {
				order = append(order, order[0])
			}
		case 3:
			order = append(order, "nonexistent")
		}
		return c13Op{Op: "ReorderRules", IDs: order}
	case 5, 6:
		return c13Op{Op: "AddPrincipal", Name: c13Keys[r.IntN(len(c13Keys))], N: r.IntN(3)}
	case 7:
		return c13Op{Op: "UpdatePrincipal", Name: c13Keys[r.IntN(len(c13Keys))], N: r.IntN(3)}
	default:
		return c13Op{Op: "RemovePrincipal", Name: append(append([]string{}, c13Keys...), "", "unknown")[r.IntN(len(c13Keys)+2)], N: r.IntN(3)}
	}
}

// resolveIDs maps scenario key names to principal IDs known to the metadata
// (a key may have been added as Key or as Person).
func c13ResolveIDs(t tuf.TargetsMetadata, version string, names []string) []string {
	out := []string{}
	prs := t.GetPrincipals()
	for _, n := range names {
		if n == "unknown-principal" {
			out = append(out, n)
			continue
		}
		if _, ok := prs["person-"+n]; ok {
			out = append(out, "person-"+n)
			continue
		}
		out = append(out, keys.Get(n).KeyID)
	}
	return out
}

func c13ApplyTargets(t tuf.TargetsMetadata, version string, op c13Op) error {
	switch op.Op {
	case "AddRule":
		return t.AddRule(op.Name, c13ResolveIDs(t, version, op.IDs), op.Pats, op.N)
	case "UpdateRule":
		return t.UpdateRule(op.Name, c13ResolveIDs(t, version, op.IDs), op.Pats, op.N)
	case "RemoveRule":
		return t.RemoveRule(op.Name)
	case "ReorderRules":
		return t.ReorderRules(op.IDs)
	case "AddPrincipal":
		if op.N == 0 && version == "v02" {
			return t.AddPrincipal(keys.Person("person-"+op.Name, map[string]string{"app": "user-" + op.Name}, keys.Get(op.Name)))
		}
		return t.AddPrincipal(c13Principal(version, op.Name, nil))
	case "UpdatePrincipal":
		if op.N == 0 && version == "v02" {
			return t.UpdatePrincipal(keys.Person("person-"+op.Name, map[string]string{"app": "changed-" + op.Name}, keys.Get(op.Name), keys.Get("extra")))
		}
		return t.UpdatePrincipal(c13Principal(version, op.Name, nil))
	case "RemovePrincipal":
		id := op.Name
		if id != "" && id != "unknown" {
			id = c13PrincipalID(version, op.Name, op.N == 0)
		}
		return t.RemovePrincipal(id)
	}
	return fmt.Errorf("unknown op")
}

func c13RunTargets(c *fw.Ctx, version string, ops []c13Op) {
	t := newTargets(version)
	accepted, refused := 0, 0
	for i, op := range ops {
		c.Eval(1)
		cs := c13Case{Kind: "targets", Version: version, Ops: ops[:i+1], At: i}
		bad := c.Guard(cs, func() {
			before, _ := json.Marshal(t)
			err := c13ApplyTargets(t, version, op)
			after, _ := json.Marshal(t)
			if err != nil {
				refused++
				if string(before) != string(after) {
					c.Violation("refused-edit-changed-metadata", map[string]string{"op": op.Op, "schema": version}, fmt.Sprintf("%s returned %v but the metadata changed", op.Op, err), cs)
				}
				return
			}
			accepted++
			if msg := c13CheckTargets(t); msg != "" {
				c.Violation("malformed-after-accepted-edit", map[string]string{"op": op.Op, "what": strings.SplitN(msg, " ", 4)[0] + " " + c13MsgClass(msg)}, fmt.Sprintf("after accepted %s(%+v): %s", op.Op, op, msg), cs)
				return
			}
			want := dumpTargets(t)
			re, rerr := reloadTargets(version, t)
			if rerr != nil {
				c.Violation("reload-failed", map[string]string{"schema": version}, "metadata produced by accepted edits cannot be reloaded: "+rerr.Error(), cs)
				return
			}
			if got := dumpTargets(re); got != want {
				c.Violation("reload-answers-differently", map[string]string{"schema": version, "op": op.Op}, fmt.Sprintf("after serialisation round trip queries differ:\n--- original\n%s--- reloaded\n%s", want, got), cs)
				return
			}
			if v1, ok := t.(*tufv01.TargetsMetadata); ok {
				mig := migrations.MigrateTargetsMetadataV01ToV02(v1)
				if got := dumpTargets(mig); got != want {
					c.Violation("migration-answers-differently", map[string]string{"op": op.Op}, fmt.Sprintf("migrated metadata answers differently:\n--- v01\n%s--- v02\n%s", want, got), cs)
				}
			}
		})
		if bad {
			return
		}
	}
	if accepted > 0 && refused > 0 {
		c.Nontrivial(fw.Hash("targets", version, ops))
	}
	c.Count("targets_edits_accepted", accepted)
	c.Count("targets_edits_refused", refused)
}

func c13MsgClass(msg string) string {
	switch {
	case strings.Contains(msg, "distinct principals"):
		return "threshold-exceeds-distinct-principals"
	case strings.Contains(msg, "undefined principal"):
		return "undefined-principal"
	case strings.Contains(msg, "allow rule"):
		return "allow-rule"
	case strings.Contains(msg, "reserved prefix"):
		return "reserved-prefix"
	case strings.Contains(msg, "threshold"):
		return "threshold"
	}
	return "other"
}

// ---- root driver

func newRoot(version string) tuf.RootMetadata {
	if version == "v01" {
		return tufv01.NewRootMetadata()
	}
	return tufv02.NewRootMetadata()
}

func reloadRoot(version string, r tuf.RootMetadata) (tuf.RootMetadata, error) {
	b, err := json.Marshal(r)
	if err != nil {
		return nil, err
	}
	if version == "v01" {
		n := &tufv01.RootMetadata{}
		return n, json.Unmarshal(b, n)
	}
	n := &tufv02.RootMetadata{}
	return n, json.Unmarshal(b, n)
}

func c13GenRootOp(r *rand.Rand) c13Op {
	k := c13Keys[r.IntN(len(c13Keys))]
	gname := fmt.Sprintf("g%d", r.IntN(3))
	switch r.IntN(22) {
	case 0, 1:
		return c13Op{Op: "AddRootPrincipal", Name: k}
	case 2:
		return c13Op{Op: "DeleteRootPrincipal", Name: k}
	case 3:
		return c13Op{Op: "UpdateRootThreshold", N: r.IntN(5) - 1}
	case 4, 5:
		return c13Op{Op: "AddPrimaryRuleFilePrincipal", Name: k}
	case 6:
		return c13Op{Op: "DeletePrimaryRuleFilePrincipal", Name: k}
	case 7:
		return c13Op{Op: "UpdatePrimaryRuleFileThreshold", N: r.IntN(5) - 1}
	case 8:
		return c13Op{Op: "AddGlobalRuleThreshold", Name: gname, Pats: []string{"git:refs/heads/*"}, N: r.IntN(4)}
	case 9:
		return c13Op{Op: "AddGlobalRuleBFP", Name: gname, Pats: [][]string{{"git:refs/heads/main"}, {"file:x"}}[r.IntN(2)]}
	case 10:
		return c13Op{Op: "UpdateGlobalRuleThreshold", Name: gname, Pats: []string{"git:refs/tags/*"}, N: r.IntN(4)}
	case 11:
		return c13Op{Op: "DeleteGlobalRule", Name: gname}
	case 12:
		return c13Op{Op: "AddPropagation", Name: fmt.Sprintf("d%d", r.IntN(2))}
	case 13:
		return c13Op{Op: "UpdatePropagation", Name: fmt.Sprintf("d%d", r.IntN(2))}
	case 14:
		return c13Op{Op: "DeletePropagation", Name: fmt.Sprintf("d%d", r.IntN(2))}
	case 15:
		return c13Op{Op: []string{"EnableController", "DisableController"}[r.IntN(2)]}
	case 16:
		return c13Op{Op: "AddControllerRepository", Name: fmt.Sprintf("c%d", r.IntN(2)), IDs: []string{k}}
	case 17:
		return c13Op{Op: "AddNetworkRepository", Name: fmt.Sprintf("n%d", r.IntN(2)), IDs: []string{k}}
	case 18:
		return c13Op{Op: "AddHook", Name: fmt.Sprintf("h%d", r.IntN(2)), IDs: []string{k}, N: r.IntN(3)}
	case 19:
		return c13Op{Op: []string{"UpdateHook", "RemoveHook"}[r.IntN(2)], Name: fmt.Sprintf("h%d", r.IntN(2)), IDs: []string{k}, N: r.IntN(3)}
	case 20:
		return c13Op{Op: "AddGitHubApp", Name: fmt.Sprintf("app%d", r.IntN(2)), IDs: []string{k}}
	default:
		return c13Op{Op: []string{"EnableGitHubApp", "DisableGitHubApp", "DeleteGitHubApp"}[r.IntN(3)], Name: fmt.Sprintf("app%d", r.IntN(2))}
	}
}

func c13ApplyRoot(rm tuf.RootMetadata, version string, op c13Op) error {
	pr := func(n string) tuf.Principal { return c13Principal(version, n, nil) }
	kid := func(n string) string { return keys.Get(n).KeyID }
	stages := func(n int) []tuf.HookStage {
		switch n {
		case 0:
			return []tuf.HookStage{tuf.HookStagePreCommit}
		case 1:
			return []tuf.HookStage{tuf.HookStagePrePush}
		default:
			return []tuf.HookStage{tuf.HookStagePreCommit, tuf.HookStagePrePush}
		}
	}
	switch op.Op {
	case "AddRootPrincipal":
		return rm.AddRootPrincipal(pr(op.Name))
	case "DeleteRootPrincipal":
		return rm.DeleteRootPrincipal(kid(op.Name))
	case "UpdateRootThreshold":
		return rm.UpdateRootThreshold(op.N)
	case "AddPrimaryRuleFilePrincipal":
		return rm.AddPrimaryRuleFilePrincipal(pr(op.Name))
	case "DeletePrimaryRuleFilePrincipal":
		return rm.DeletePrimaryRuleFilePrincipal(kid(op.Name))
	case "UpdatePrimaryRuleFileThreshold":
		return rm.UpdatePrimaryRuleFileThreshold(op.N)
	case "AddGlobalRuleThreshold":
		return rm.AddGlobalRule(tufv01.NewGlobalRuleThreshold(op.Name, op.Pats, op.N))
	case "AddGlobalRuleBFP":
		g, err := tufv01.NewGlobalRuleBlockForcePushes(op.Name, op.Pats)
		if err != nil {
			return err
		}
		return rm.AddGlobalRule(g)
	case "UpdateGlobalRuleThreshold":
		return rm.UpdateGlobalRule(tufv01.NewGlobalRuleThreshold(op.Name, op.Pats, op.N))
	case "DeleteGlobalRule":
		return rm.DeleteGlobalRule(op.Name)
	case "AddPropagation":
		return rm.AddPropagationDirective(tufv01.NewPropagationDirective(op.Name, "https://up/"+op.Name, "refs/heads/main", "", "refs/heads/main", "vendor/"+op.Name))
	case "UpdatePropagation":
		return rm.UpdatePropagationDirective(tufv01.NewPropagationDirective(op.Name, "https://up2/"+op.Name, "refs/heads/dev", "src", "refs/heads/main", "third_party/"+op.Name))
	case "DeletePropagation":
		return rm.DeletePropagationDirective(op.Name)
	case "EnableController":
		return rm.EnableController()
	case "DisableController":
		return rm.DisableController()
	case "AddControllerRepository":
		return rm.AddControllerRepository(op.Name, "https://ctl/"+op.Name, []tuf.Principal{pr(op.IDs[0])})
	case "AddNetworkRepository":
		return rm.AddNetworkRepository(op.Name, "https://net/"+op.Name, []tuf.Principal{pr(op.IDs[0])})
	case "AddHook":
		_, err := rm.AddHook(stages(op.N), op.Name, []string{kid(op.IDs[0])}, map[string]string{"sha256": strings.Repeat("ab", 32), "gitBlob": strings.Repeat("cd", 20)}, tuf.HookEnvironmentLua, 10+op.N)
		return err
	case "UpdateHook":
		return rm.UpdateHook(stages(op.N), op.Name, []string{kid(op.IDs[0])}, map[string]string{"sha256": strings.Repeat("ef", 32), "gitBlob": strings.Repeat("01", 20)}, tuf.HookEnvironmentLua, 20+op.N)
	case "RemoveHook":
		return rm.RemoveHook(stages(op.N), op.Name)
	case "AddGitHubApp":
		return rm.AddGitHubAppPrincipal(op.Name, pr(op.IDs[0]))
	case "EnableGitHubApp":
		rm.EnableGitHubAppApprovals(op.Name)
		return nil
	case "DisableGitHubApp":
		rm.DisableGitHubAppApprovals(op.Name)
		return nil
	case "DeleteGitHubApp":
		rm.DeleteGitHubAppPrincipal(op.Name)
		return nil
	}
	return fmt.Errorf("unknown op")
}

func c13RunRoot(c *fw.Ctx, version string, ops []c13Op) {
	rm := newRoot(version)
	accepted, refused := 0, 0
	haveRoot, haveTargets := false, false
	for i, op := range ops {
		c.Eval(1)
		cs := c13Case{Kind: "root", Version: version, Ops: ops[:i+1], At: i}
		bad := c.Guard(cs, func() {
			before, _ := json.Marshal(rm)
			err := c13ApplyRoot(rm, version, op)
			after, merr := json.Marshal(rm)
			if err != nil {
				refused++
				if string(before) != string(after) {
					c.Violation("refused-edit-changed-metadata", map[string]string{"op": op.Op, "schema": version}, fmt.Sprintf("%s returned %v but the metadata changed", op.Op, err), cs)
				}
				return
			}
			accepted++
			if op.Op == "AddRootPrincipal" {
				haveRoot = true
			}
			if op.Op == "AddPrimaryRuleFilePrincipal" {
				haveTargets = true
			}
			if merr != nil {
				c.Violation("unserialisable-after-accepted-edit", map[string]string{"op": op.Op}, "metadata cannot be serialised: "+merr.Error(), cs)
				return
			}
			if msg := c13CheckRoot(rm, haveRoot, haveTargets); msg != "" {
				c.Violation("malformed-after-accepted-edit", map[string]string{"op": op.Op, "what": c13MsgClass(msg)}, fmt.Sprintf("after accepted %s(%+v): %s", op.Op, op, msg), cs)
				return
			}
			want := dumpRoot(rm)
			re, rerr := reloadRoot(version, rm)
			if rerr != nil {
				c.Violation("reload-failed", map[string]string{"schema": version, "op": op.Op}, "metadata produced by accepted edits cannot be reloaded: "+rerr.Error(), cs)
				return
			}
			if got := dumpRoot(re); got != want {
				c.Violation("reload-answers-differently", map[string]string{"schema": version, "op": op.Op}, fmt.Sprintf("after serialisation round trip queries differ:\n--- original\n%s--- reloaded\n%s", want, got), cs)
				return
			}
			if v1, ok := rm.(*tufv01.RootMetadata); ok {
				mig := migrations.MigrateRootMetadataV01ToV02(v1)
				if got := dumpRoot(mig); got != want {
					c.Violation("migration-answers-differently", map[string]string{"op": op.Op}, fmt.Sprintf("migrated metadata answers differently:\n--- v01\n%s--- v02\n%s", want, got), cs)
				}
			}
		})
		if bad {
			return
		}
	}
	if accepted > 0 && refused > 0 {
		c.Nontrivial(fw.Hash("root", version, ops))
	}
	c.Count("root_edits_accepted", accepted)
	c.Count("root_edits_refused", refused)
}

func runC13(c *fw.Ctx) {
	r := c.Rand(uint64(1300 + c.Shard))
	n := c.Pick(20000, 1000000) / c.NShards
	for i := 0; i < n; i++ {
		version := []string{"v01", "v02"}[r.IntN(2)]
		L := 3 + r.IntN(23)
		if r.IntN(2) == 0 {
			ops := []c13Op{}
			names := []string{}
			for j := 0; j < L; j++ {
				op := c13GenTargetsOp(r, version, names)
				if op.Op == "AddRule" {
					names = append(names, op.Name)
				}
				ops = append(ops, op)
			}
			c13RunTargets(c, version, ops)
			if i%500 == 0 {
				c.Sample(map[string]any{"kind": "targets", "version": version, "ops": ops[:min(6, len(ops))]})
			}
		} else {
			ops := []c13Op{}
			for j := 0; j < L; j++ {
				ops = append(ops, c13GenRootOp(r))
			}
			c13RunRoot(c, version, ops)
		}
	}
	// repository API side (real git): rule-name uniqueness and reserved prefix
	ra := c.Rand(uint64(1350 + c.Shard))
	for i := 0; i < c.Pick(16, 640)/c.NShards; i++ {
		ops := c13APIGen(ra)
		c13APIRun(c, ops)
		if i == 0 {
			c.Sample(map[string]any{"kind": "api", "ops": ops})
		}
	}
}

func replayC13(c *fw.Ctx, raw json.RawMessage) error {
	var ac c13APICase
	if err := json.Unmarshal(raw, &ac); err == nil && len(ac.APIOps) > 0 {
		for i, op := range ac.APIOps {
			fmt.Printf("  %d: %+v\n", i, op)
		}
		c13APIRun(c, ac.APIOps)
		return nil
	}
	var cs c13Case
	if err := json.Unmarshal(raw, &cs); err != nil {
		return err
	}
	if len(cs.Ops) == 0 {
		var w struct {
			Case c13Case `json:"case"`
		}
		if err := json.Unmarshal(raw, &w); err == nil {
			cs = w.Case
		}
	}
	for i, op := range cs.Ops {
		fmt.Printf("  %d: %+v\n", i, op)
	}
	if cs.Kind == "root" {
		c13RunRoot(c, cs.Version, cs.Ops)
	} else {
		c13RunTargets(c, cs.Version, cs.Ops)
	}
	return nil
}
