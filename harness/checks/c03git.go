package checks

import (
	"context"
	"fmt"

	gittuf "github.com/gittuf/gittuf/experimental/gittuf"
	rslopts "github.com/gittuf/gittuf/experimental/gittuf/options/rsl"
	"github.com/gittuf/gittuf/internal/verifharness/fw"
	"github.com/gittuf/gittuf/pkg/githash"
)

// c03RealGit drives the public recording API on real repositories and checks
// the same invariants with the raw-plumbing walker.
func c03RealGit(c *fw.Ctx, n int) {
	r := c.Rand(uint64(350 + c.Shard))
	for it := 0; it < n; it++ {
		g, cleanup, err := newScratchGit(c, "c03")
		if err != nil {
			c.Inconclusive("git init")
			return
		}
		api, err := gittuf.LoadRepository(g.Dir)
		if err != nil {
			cleanup()
			c.Inconclusive("load repository")
			return
		}
		c0, _ := g.CommitFiles(map[string]string{"f": "0"}, nil, "c0", nil)
		c1, _ := g.CommitFiles(map[string]string{"f": "1"}, []githash.Hash{c0}, "c1", nil)
		c2, _ := g.CommitFiles(map[string]string{"g": "x"}, nil, "root2", nil)
		pool := []githash.Hash{c0, c1, c2}
		refs := []string{"refs/heads/main", "refs/heads/feature", "refs/heads/dev/x"}
		type step struct {
			Op   string
			Ref  string
			Tgt  int
			IDs  []string
			Skip bool
		}
		steps := []step{}
		nOps := 3 + r.IntN(8)
		for k := 0; k < nOps; k++ {
			c.Eval(1)
			before, berr := walkLogGit(g)
			if berr != nil {
				c.Violation("chain-invariant-broken", map[string]string{"op": "api", "faulted": "false", "start": "real-git"}, "real git: "+berr.Error(), steps)
				break
			}
			if r.IntN(3) != 0 || len(before) == 0 {
				ref := refs[r.IntN(len(refs))]
				t := r.IntN(len(pool))
				steps = append(steps, step{Op: "record", Ref: ref, Tgt: t})
				if err := g.SetRef(ref, pool[t]); err != nil {
					c.Inconclusive("update-ref")
					break
				}
				err := api.RecordRSLEntryForReference(context.Background(), ref, false, rslopts.WithRecordLocalOnly())
				after, aerr := walkLogGit(g)
				if aerr != nil {
					c.Violation("chain-invariant-broken", map[string]string{"op": "api-record", "faulted": "false", "start": "real-git"}, "real git after RecordRSLEntryForReference: "+aerr.Error(), steps)
					break
				}
				want := 1
				// documented: a duplicate of the latest *unskipped* entry for the ref is not recorded
				skipped := map[string]bool{}
				for _, e := range before {
					if e.Kind == "annotation" && e.Skip {
						for _, id := range e.IDs {
							skipped[id] = true
						}
					}
				}
				for i := len(before) - 1; i >= 0; i-- {
					if before[i].Kind == "reference" && before[i].Ref == ref && !skipped[before[i].ID] {
						if before[i].Target == pool[t].String() {
							want = 0
						}
						break
					}
				}
				if err != nil {
					c.Violation("appended-entry-mismatch", map[string]string{"op": "api-record", "faulted": "false", "start": "real-git"}, "RecordRSLEntryForReference failed on a plain repository: "+err.Error(), steps)
					break
				}
				if len(after)-len(before) != want {
					c.Violation("wrong-number-of-entries", map[string]string{"op": "api-record", "faulted": "false", "start": "real-git"}, fmt.Sprintf("RecordRSLEntryForReference appended %d entries, expected %d", len(after)-len(before), want), steps)
					break
				}
				if want == 1 {
					last := after[len(after)-1]
					if last.Ref != ref || last.Target != pool[t].String() || last.Number != uint64(len(after)) {
						c.Violation("appended-entry-mismatch", map[string]string{"op": "api-record", "faulted": "false", "start": "real-git"}, fmt.Sprintf("entry %+v does not record %s -> %s as number %d", last, ref, pool[t].String(), len(after)), steps)
						break
					}
				}
				c.Count("real_git:record_ok", 1)
				continue
			}
			// annotation
			ids := []string{}
			allEntries := true
			for j := 0; j < 1+r.IntN(2); j++ {
				if r.IntN(4) == 0 {
					ids = append(ids, pool[r.IntN(len(pool))].String())
					allEntries = false
				} else {
					ids = append(ids, before[r.IntN(len(before))].ID)
				}
			}
			skip := r.IntN(2) == 0
			steps = append(steps, step{Op: "annotate", IDs: ids, Skip: skip})
			err := api.RecordRSLAnnotation(context.Background(), ids, skip, c03Msgs[r.IntN(3)], false, rslopts.WithAnnotateLocalOnly())
			after, aerr := walkLogGit(g)
			if aerr != nil {
				c.Violation("chain-invariant-broken", map[string]string{"op": "api-annotate", "faulted": "false", "start": "real-git"}, "real git after RecordRSLAnnotation: "+aerr.Error(), steps)
				break
			}
			switch {
			case err == nil && !allEntries:
				c.Violation("annotation-of-non-entry-accepted", map[string]string{"ids": "commit"}, "RecordRSLAnnotation accepted an id that is not an RSL entry", steps)
			case err != nil && len(after) != len(before):
				c.Violation("failed-operation-appended", map[string]string{"op": "api-annotate", "faulted": "false", "start": "real-git"}, "RecordRSLAnnotation failed but the log grew", steps)
			case err == nil && len(after) != len(before)+1:
				c.Violation("wrong-number-of-entries", map[string]string{"op": "api-annotate", "faulted": "false", "start": "real-git"}, "RecordRSLAnnotation did not append exactly one entry", steps)
			case err != nil && allEntries:
				c.Violation("appended-entry-mismatch", map[string]string{"op": "api-annotate", "faulted": "false", "start": "real-git"}, "RecordRSLAnnotation refused valid entry ids: "+err.Error(), steps)
			default:
				c.Count("real_git:annotate_checked", 1)
			}
		}
		c.Nontrivial(fw.Hash("c03git", c.Shard, it))
		cleanup()
	}
}
