package checks

import (
	"bytes"
	"encoding/hex"
	"encoding/json"
	"fmt"
	"math/rand/v2"
	"sort"
	"strings"

	"github.com/gittuf/gittuf/internal/propagation"
	"github.com/gittuf/gittuf/internal/tuf"
	tufv01 "github.com/gittuf/gittuf/internal/tuf/v01"
	"github.com/gittuf/gittuf/internal/verifharness/fw"
	"github.com/gittuf/gittuf/internal/verifharness/scen"
	"github.com/gittuf/gittuf/pkg/githash"
	"github.com/gittuf/gittuf/pkg/rsl"
)

// C18 — propagation copies exactly the upstream subtree and is idempotent.

func init() {
	fw.Register(&fw.Check{
		ID:    "C18",
		Level: "exploration",
		Rule: "upstream / downstream trees (nested directories, odd path names as in C10, sibling names that are prefixes of one another, optionally executable files and symlinks) written by raw plumbing; directives with and without an upstream path, downstream path with and without a trailing slash, one or two directives per upstream; upstream log states {no entry, latest entry skipped, entry updated between calls}; 1-3 repetitions. Oracle: raw ls-tree -r -z of the downstream ref before / after. " +
			"distinct = hash of the scenario; non-trivial = the downstream tree already has content under or next to the downstream path, or the directive has an upstream path",
		Assumptions: []string{
			"repositories are bare and not named *.git (gittuf decides bareness by the .git suffix)",
			"file modes (executable, symlink) are a separately labelled dimension: scenarios with non-100644 entries are classified mode-normalised when that is the only difference",
		},
		MinNontrivial: 30,
		Run:           runC18,
		Replay:        replayC18,
	})
}

type c18Entry struct {
	Mode    string `json:"mode"`
	PathHex string `json:"path_hex"`
	Content string `json:"content"`
}

type c18Case struct {
	Upstream     []c18Entry `json:"upstream"`
	Upstream2    []c18Entry `json:"upstream2,omitempty"` // tree of a later upstream entry
	Downstream   []c18Entry `json:"downstream"`
	UpstreamPath string     `json:"upstream_path"`
	DownPath     string     `json:"downstream_path"`
	SecondDir    string     `json:"second_directive_path,omitempty"`
	// AbsentFirst: a directive naming an upstream reference that has no entry in the
	// upstream log precedes the others; it propagates nothing and must not stop them
	AbsentFirst bool   `json:"absent_first,omitempty"`
	LogState    string `json:"log_state"` // entry | none | latest-skipped | updated
	Repeats     int    `json:"repeats"`
	Modes       bool   `json:"modes"`
}

type lsEntry struct{ mode, typ, id string }

func c18Ls(g *scen.Git, rev string) (map[string]lsEntry, error) {
	raw, err := g.RunRaw(nil, "ls-tree", "-r", "-z", rev)
	if err != nil {
		return nil, err
	}
	out := map[string]lsEntry{}
	for _, rec := range bytes.Split(raw, []byte{0}) {
		if len(rec) == 0 {
			continue
		}
		tab := bytes.IndexByte(rec, '\t')
		f := strings.Fields(string(rec[:tab]))
		out[string(rec[tab+1:])] = lsEntry{f[0], f[1], f[2]}
	}
	return out, nil
}

// c18Write writes a nested tree with modes via mktree -z.
func c18Write(g *scen.Git, entries []c18Entry) (githash.Hash, error) {
	type node struct {
		leaves map[string]c18Entry
		dirs   map[string]*node
	}
	root := &node{leaves: map[string]c18Entry{}, dirs: map[string]*node{}}
	for _, e := range entries {
		pb, _ := hex.DecodeString(e.PathHex)
		parts := strings.Split(string(pb), "/")
		cur := root
		for _, d := range parts[:len(parts)-1] {
			if cur.dirs[d] == nil {
				cur.dirs[d] = &node{leaves: map[string]c18Entry{}, dirs: map[string]*node{}}
			}
			cur = cur.dirs[d]
		}
		cur.leaves[parts[len(parts)-1]] = e
	}
	var write func(n *node) (string, error)
	write = func(n *node) (string, error) {
		var in bytes.Buffer
		for name, e := range n.leaves {
			id, err := g.Run([]byte(e.Content), nil, "hash-object", "-w", "--stdin")
			if err != nil {
				return "", err
			}
			fmt.Fprintf(&in, "%s blob %s\t%s\x00", e.Mode, id, name)
		}
		for name, d := range n.dirs {
			id, err := write(d)
			if err != nil {
				return "", err
			}
			fmt.Fprintf(&in, "040000 tree %s\t%s\x00", id, name)
		}
		return g.Run(in.Bytes(), nil, "mktree", "-z")
	}
	id, err := write(root)
	if err != nil {
		return nil, err
	}
	return githash.NewHash(id)
}

var c18Names = []string{"plain", "a b", "tab\there", "q\"uote", "é", "日本", "foo", "foobar", "trail ", "star*", "back\\slash"}

func c18GenTree(r *rand.Rand, prefix string, n int, modes bool) []c18Entry {
	out := []c18Entry{}
	seen := map[string]bool{}
	for tries := 0; len(out) < n && tries < 400; tries++ {
		depth := r.IntN(3)
		parts := []string{}
		for d := 0; d <= depth; d++ {
			parts = append(parts, c18Names[r.IntN(len(c18Names))])
		}
		p := prefix + strings.Join(parts, "/")
		clash := false
		for q := range seen {
			if q == p || strings.HasPrefix(q, p+"/") || strings.HasPrefix(p, q+"/") {
				clash = true
			}
		}
		if clash {
			continue
		}
		seen[p] = true
		mode := "100644"
		if modes {
			mode = []string{"100644", "100755", "120000"}[r.IntN(3)]
		}
		out = append(out, c18Entry{Mode: mode, PathHex: hex.EncodeToString([]byte(p)), Content: fmt.Sprintf("c-%x-%d", p, r.IntN(1000))})
	}
	return out
}

func c18Gen(r *rand.Rand) c18Case {
	cs := c18Case{Modes: r.IntN(5) == 0, Repeats: 1 + r.IntN(3)}
	cs.LogState = []string{"entry", "entry", "entry", "none", "latest-skipped", "updated"}[r.IntN(6)]
	cs.DownPath = []string{"vendor/up", "vendor/up/", "foo", "third party/é", "up"}[r.IntN(5)]
	cs.Upstream = c18GenTree(r, "", 2+r.IntN(4), cs.Modes)
	if r.IntN(2) == 0 {
		cs.UpstreamPath = "sub/dir"
		cs.Upstream = append(cs.Upstream, c18GenTree(r, "sub/dir/", 1+r.IntN(3), cs.Modes)...)
		if r.IntN(3) == 0 {
			cs.UpstreamPath = "sub/dir/"
		}
	}
	cs.Upstream2 = append(append([]c18Entry{}, cs.Upstream[1:]...), c18GenTree(r, "new/", 1, cs.Modes)...)
	if cs.UpstreamPath != "" {
		cs.Upstream2 = append(cs.Upstream2, c18GenTree(r, "sub/dir/added/", 1, cs.Modes)...)
	}
	dp := strings.TrimSuffix(cs.DownPath, "/")
	cs.Downstream = c18GenTree(r, "", 1+r.IntN(3), cs.Modes)
	// siblings whose names extend the downstream path, and stale content under it
	cs.Downstream = append(cs.Downstream, c18Entry{Mode: "100644", PathHex: hex.EncodeToString([]byte(dp + "bar/keep")), Content: "sibling"})
	if r.IntN(2) == 0 {
		cs.Downstream = append(cs.Downstream, c18Entry{Mode: "100644", PathHex: hex.EncodeToString([]byte(dp + "/stale file")), Content: "stale"})
	}
	// de-duplicate clashes between generated names and the fixed ones
	clean := []c18Entry{}
	seen := map[string]bool{}
	for _, e := range cs.Downstream {
		pb, _ := hex.DecodeString(e.PathHex)
		p := string(pb)
		clash := false
		for q := range seen {
			if q == p || strings.HasPrefix(q, p+"/") || strings.HasPrefix(p, q+"/") {
				clash = true
			}
		}
		if p == dp || strings.HasPrefix(dp, p+"/") && !strings.HasPrefix(p, dp) {
			clash = true
		}
		if !clash {
			seen[p] = true
			clean = append(clean, e)
		}
	}
	cs.Downstream = clean
	if r.IntN(4) == 0 {
		cs.SecondDir = "second/copy"
	}
	cs.AbsentFirst = r.IntN(3) == 0
	return cs
}

func c18Judge(c *fw.Ctx, cs c18Case) {
	c.Eval(1)
	rsl.VerifResetCache()
	dir := c.Scratch(fmt.Sprintf("c18-%d", scratchCounter.Add(1)))
	up, err1 := scen.NewGit(dir+"/upstream", true)
	down, err2 := scen.NewGit(dir+"/downstream", true)
	defer func() { _ = removeAll(dir) }()
	if err1 != nil || err2 != nil {
		c.Inconclusive("git init")
		return
	}
	ut, err := c18Write(up, cs.Upstream)
	if err != nil {
		c.Inconclusive("mktree upstream: " + trunc(err.Error(), 60))
		return
	}
	uc1, _ := up.CommitTree(ut, nil, "upstream 1", nil)
	_ = up.SetRef(refMain, uc1)
	var usedEntry githash.Hash
	usedTreeEntries := cs.Upstream
	switch cs.LogState {
	case "none":
	case "entry", "updated":
		usedEntry, _ = scen.RecordEntry(up, refMain, uc1, "")
	case "latest-skipped":
		usedEntry, _ = scen.RecordEntry(up, refMain, uc1, "")
		ut2, err := c18Write(up, cs.Upstream2)
		if err != nil {
			c.Inconclusive("mktree upstream2")
			return
		}
		uc2, _ := up.CommitTree(ut2, []githash.Hash{uc1}, "upstream 2", nil)
		_ = up.SetRef(refMain, uc2)
		e2, _ := scen.RecordEntry(up, refMain, uc2, "")
		if _, err := scen.Annotate(up, []githash.Hash{e2}, true, "revoked", ""); err != nil {
			c.Inconclusive("annotate upstream")
			return
		}
	}
	dt, err := c18Write(down, cs.Downstream)
	if err != nil {
		c.Inconclusive("mktree downstream: " + trunc(err.Error(), 60))
		return
	}
	dc, _ := down.CommitTree(dt, nil, "downstream", nil)
	_ = down.SetRef(refMain, dc)
	if _, err := scen.RecordEntry(down, refMain, dc, ""); err != nil {
		c.Inconclusive("downstream entry")
		return
	}
	directives := []tuf.PropagationDirective{tufv01.NewPropagationDirective("d1", up.Dir, refMain, cs.UpstreamPath, refMain, cs.DownPath)}
	if cs.AbsentFirst {
		directives = append([]tuf.PropagationDirective{tufv01.NewPropagationDirective("d0", up.Dir, "refs/heads/never-recorded", "", refMain, "absent/dir")}, directives...)
	}
	if cs.SecondDir != "" {
		directives = append(directives, tufv01.NewPropagationDirective("d2", up.Dir, refMain, "", refMain, cs.SecondDir))
	}
	nontrivial := cs.UpstreamPath != "" || len(cs.Downstream) > 1
	if nontrivial {
		c.Nontrivial(fw.Hash(cs))
	}
	attrsBase := map[string]string{"upstream_path": fmt.Sprint(cs.UpstreamPath != ""), "log_state": cs.LogState}

	expected := func(before map[string]lsEntry, upTree map[string]lsEntry) map[string]lsEntry {
		want := map[string]lsEntry{}
		apply := func(downPath, upPath string) {
			dp := strings.TrimSuffix(downPath, "/")
			for p := range want {
				if strings.HasPrefix(p, dp+"/") {
					delete(want, p)
				}
			}
			upp := strings.TrimSuffix(upPath, "/")
			for p, e := range upTree {
				if upp == "" {
					want[dp+"/"+p] = e
				} else if strings.HasPrefix(p, upp+"/") {
					want[dp+"/"+strings.TrimPrefix(p, upp+"/")] = e
				}
			}
		}
		for p, e := range before {
			want[p] = e
		}
		apply(cs.DownPath, cs.UpstreamPath)
		if cs.SecondDir != "" {
			apply(cs.SecondDir, "")
		}
		return want
	}

	c.Guard(cs, func() {
		for rep := 0; rep < cs.Repeats; rep++ {
			if cs.LogState == "updated" && rep == 1 {
				ut2, err := c18Write(up, cs.Upstream2)
				if err != nil {
					c.Inconclusive("mktree upstream2")
					return
				}
				uc2, _ := up.CommitTree(ut2, []githash.Hash{uc1}, "upstream 2", nil)
				_ = up.SetRef(refMain, uc2)
				usedEntry, _ = scen.RecordEntry(up, refMain, uc2, "")
				usedTreeEntries = cs.Upstream2
			}
			_ = usedTreeEntries
			before, _ := c18Ls(down, refMain)
			tipBefore, _ := down.GetReference(refMain)
			logBefore, _ := walkLogGit(down)
			rsl.VerifResetCache()
			perr := propagation.PropagateChangesFromUpstreamRepository(down.Repository, up.Repository, directives, false)
			after, _ := c18Ls(down, refMain)
			tipAfter, _ := down.GetReference(refMain)
			logAfter, lerr := walkLogGit(down)
			if lerr != nil {
				c.Violation("downstream-log-corrupt", attrsBase, lerr.Error(), cs)
				return
			}
			if cs.LogState == "none" {
				if perr != nil || !tipAfter.Equal(tipBefore) || len(logAfter) != len(logBefore) {
					c.Violation("propagated-without-upstream-entry", attrsBase, fmt.Sprintf("upstream has no entry for the ref, yet err=%v tip moved=%v entries added=%d", perr, !tipAfter.Equal(tipBefore), len(logAfter)-len(logBefore)), cs)
				}
				continue
			}
			if perr != nil {
				c.Violation("propagation-failed", map[string]string{"upstream_path": attrsBase["upstream_path"], "log_state": cs.LogState, "error": trunc(perr.Error(), 40)}, "propagation failed: "+perr.Error(), cs)
				return
			}
			// what the upstream's latest unskipped entry records
			var upRev string
			if usedEntry != nil {
				ent, err := rsl.GetEntry(up, usedEntry)
				if err != nil {
					c.Inconclusive("upstream entry")
					return
				}
				upRev = ent.(*rsl.ReferenceEntry).TargetID.String()
			}
			upTree, _ := c18Ls(up, upRev)
			want := expected(before, upTree)
			alreadyThere := sameTree(before, want, false)
			if alreadyThere {
				if !tipAfter.Equal(tipBefore) || len(logAfter) != len(logBefore) {
					a := map[string]string{"upstream_path": attrsBase["upstream_path"], "log_state": cs.LogState, "repetition": fmt.Sprint(rep + 1)}
					c.Violation("not-idempotent", a, fmt.Sprintf("downstream path already holds the upstream content, yet call %d created %d entries and moved the ref=%v", rep+1, len(logAfter)-len(logBefore), !tipAfter.Equal(tipBefore)), cs)
					return
				}
				c.Count("idempotent_repetitions", 1)
				continue
			}
			if !sameTree(after, want, false) {
				kind := "wrong-downstream-tree"
				attrs := map[string]string{"upstream_path": attrsBase["upstream_path"], "how": c18How(after, want)}
				if sameTree(after, want, true) {
					kind = "mode-normalised"
					attrs = map[string]string{}
				}
				c.Violation(kind, attrs, fmt.Sprintf("downstream tree after propagation differs from (old tree with %q replaced by upstream %q): %s", cs.DownPath, cs.UpstreamPath, c18Diff(after, want)), cs)
				return
			}
			nd := 1
			if cs.SecondDir != "" {
				nd = 2
			}
			added := logAfter[len(logBefore):]
			if len(added) < 1 || len(added) > nd {
				c.Violation("wrong-number-of-propagation-entries", attrsBase, fmt.Sprintf("%d entries added for %d directives", len(added), nd), cs)
				return
			}
			last := added[len(added)-1]
			if last.Kind != "propagation" || last.Ref != refMain || last.Target != tipAfter.String() || last.UpstreamRepo != up.Dir || last.UpstreamEntry != usedEntry.String() {
				c.Violation("propagation-entry-wrong", attrsBase, fmt.Sprintf("entry %+v does not name ref/target/upstream %s / entry %s", last, up.Dir, usedEntry.String()), cs)
				return
			}
			c.Count("propagations_ok", 1)
		}
	})
}

func sameTree(a, b map[string]lsEntry, ignoreMode bool) bool {
	if len(a) != len(b) {
		return false
	}
	for p, e := range a {
		o, ok := b[p]
		if !ok || o.id != e.id || o.typ != e.typ || (!ignoreMode && o.mode != e.mode) {
			return false
		}
	}
	return true
}

func c18Diff(got, want map[string]lsEntry) string {
	out := []string{}
	for p, e := range want {
		if g, ok := got[p]; !ok {
			out = append(out, fmt.Sprintf("missing %q", p))
		} else if g != e {
			out = append(out, fmt.Sprintf("%q is %v want %v", p, g, e))
		}
	}
	for p := range got {
		if _, ok := want[p]; !ok {
			out = append(out, fmt.Sprintf("extra %q", p))
		}
	}
	sort.Strings(out)
	if len(out) > 8 {
		out = out[:8]
	}
	return strings.Join(out, "; ")
}

func c18How(got, want map[string]lsEntry) string {
	missing := []string{}
	for p := range want {
		if _, ok := got[p]; !ok {
			missing = append(missing, p)
		}
	}
	have := []string{}
	for p := range got {
		have = append(have, p)
	}
	if len(missing) == 0 {
		return "extra-or-changed"
	}
	return c10How(missing, have)
}

func runC18(c *fw.Ctx) {
	r := c.Rand(uint64(1800 + c.Shard))
	n := c.Pick(48, 800) / c.NShards
	if n < 2 {
		n = 2
	}
	for i := 0; i < n; i++ {
		cs := c18Gen(r)
		c18Judge(c, cs)
		if i%5 == 0 {
			c.Sample(map[string]any{"upstream_path": cs.UpstreamPath, "downstream_path": cs.DownPath, "log_state": cs.LogState, "repeats": cs.Repeats, "upstream_files": len(cs.Upstream), "downstream_files": len(cs.Downstream)})
		}
	}
}

func replayC18(c *fw.Ctx, raw json.RawMessage) error {
	var cs c18Case
	if err := json.Unmarshal(raw, &cs); err != nil {
		return err
	}
	if len(cs.Upstream) == 0 {
		var w struct {
			Case c18Case `json:"case"`
		}
		if err := json.Unmarshal(raw, &w); err == nil {
			cs = w.Case
		}
	}
	show := func(name string, es []c18Entry) {
		fmt.Println(name)
		for _, e := range es {
			b, _ := hex.DecodeString(e.PathHex)
			fmt.Printf("   %s %q\n", e.Mode, string(b))
		}
	}
	show("upstream:", cs.Upstream)
	show("downstream:", cs.Downstream)
	fmt.Printf("directive: upstream path %q -> downstream path %q; log state %s; repeats %d\n", cs.UpstreamPath, cs.DownPath, cs.LogState, cs.Repeats)
	c18Judge(c, cs)
	return nil
}
