package checks

import (
	"fmt"
	"strconv"
	"strings"

	"github.com/gittuf/gittuf/internal/verifharness/memstore"
	"github.com/gittuf/gittuf/internal/verifharness/scen"
	"github.com/gittuf/gittuf/pkg/githash"
	"github.com/gittuf/gittuf/pkg/rsl"
)

// Independent log walker: follows raw parent pointers and reads messages with
// its own 25-line reader. It shares no code with pkg/rsl.

type walked struct {
	ID            string
	Kind          string // reference | annotation | propagation
	Ref           string
	Target        string
	IDs           []string
	Skip          bool
	Number        uint64
	HasNum        bool
	Parents       int
	UpstreamRepo  string
	UpstreamEntry string
}

func parseWalked(id, msg string, parents int) (walked, error) {
	w := walked{ID: id, Parents: parents}
	lines := strings.Split(strings.TrimSpace(msg), "\n")
	if len(lines) < 2 {
		return w, fmt.Errorf("commit %s: not an RSL entry", id[:8])
	}
	switch lines[0] {
	case "RSL Reference Entry":
		w.Kind = "reference"
	case "RSL Annotation Entry":
		w.Kind = "annotation"
	case "RSL Propagation Entry":
		w.Kind = "propagation"
	default:
		return w, fmt.Errorf("commit %s: not an RSL entry (%q)", id[:8], lines[0])
	}
	for _, l := range lines[2:] {
		if strings.HasPrefix(l, "-----BEGIN") {
			break
		}
		k, v, ok := strings.Cut(l, ": ")
		if !ok {
			continue
		}
		switch k {
		case "ref":
			w.Ref = v
		case "targetID":
			w.Target = v
		case "entryID":
			w.IDs = append(w.IDs, v)
		case "upstreamRepository":
			w.UpstreamRepo = v
		case "upstreamEntryID":
			w.UpstreamEntry = v
		case "skip":
			w.Skip = v == "true"
		case "number":
			n, err := strconv.ParseUint(v, 10, 64)
			if err != nil {
				return w, fmt.Errorf("commit %s: bad number %q", id[:8], v)
			}
			w.Number, w.HasNum = n, true
		}
	}
	return w, nil
}

// walkLogMem returns the log oldest-first and checks the chain invariant:
// single parent except the first, number = parent's + 1 (first numbered after
// unnumbered = 1).
func walkLogMem(st *memstore.Store) ([]walked, error) {
	tip, err := st.GetReference(rsl.Ref)
	if err != nil {
		return nil, nil // no log
	}
	rev := []walked{}
	cur := tip
	for {
		c, err := st.RawCommit(cur)
		if err != nil {
			return nil, fmt.Errorf("log walk: %w", err)
		}
		w, err := parseWalked(cur.String(), c.Message, len(c.Parents))
		if err != nil {
			return nil, err
		}
		rev = append(rev, w)
		if len(c.Parents) == 0 {
			break
		}
		if len(c.Parents) > 1 {
			return nil, fmt.Errorf("entry %s has %d parents", cur.String()[:8], len(c.Parents))
		}
		cur = c.Parents[0]
		if len(rev) > 100000 {
			return nil, fmt.Errorf("log walk does not terminate")
		}
	}
	out := make([]walked, len(rev))
	for i := range rev {
		out[len(rev)-1-i] = rev[i]
	}
	return out, checkNumbering(out)
}

func checkNumbering(log []walked) error {
	seen := map[uint64]bool{}
	for i, e := range log {
		if !e.HasNum {
			if i > 0 && log[i-1].HasNum {
				return fmt.Errorf("entry %d (%s) is unnumbered after a numbered entry", i, e.ID[:8])
			}
			continue
		}
		want := uint64(1)
		if i > 0 && log[i-1].HasNum {
			want = log[i-1].Number + 1
		}
		if e.Number != want {
			return fmt.Errorf("entry %d (%s) has number %d, its parent implies %d", i, e.ID[:8], e.Number, want)
		}
		if seen[e.Number] {
			return fmt.Errorf("two entries carry number %d", e.Number)
		}
		seen[e.Number] = true
	}
	return nil
}

// walkLogGit is the same on a real repository, using raw plumbing only.
func walkLogGit(g *scen.Git) ([]walked, error) {
	out, err := g.Run(nil, nil, "rev-list", "--parents", rsl.Ref)
	if err != nil {
		if strings.Contains(err.Error(), "unknown revision") || strings.Contains(err.Error(), "bad revision") {
			return nil, nil
		}
		return nil, err
	}
	lines := strings.Split(out, "\n")
	parentsOf := map[string][]string{}
	for _, l := range lines {
		f := strings.Fields(l)
		if len(f) == 0 {
			continue
		}
		parentsOf[f[0]] = f[1:]
	}
	tip := strings.Fields(lines[0])[0]
	rev := []walked{}
	cur := tip
	for {
		ps := parentsOf[cur]
		raw, err := g.RunRaw(nil, "cat-file", "commit", cur)
		if err != nil {
			return nil, err
		}
		msg := string(raw)
		if i := strings.Index(msg, "\n\n"); i >= 0 {
			msg = msg[i+2:]
		}
		w, err := parseWalked(cur, msg, len(ps))
		if err != nil {
			return nil, err
		}
		rev = append(rev, w)
		if len(ps) == 0 {
			break
		}
		if len(ps) > 1 {
			return nil, fmt.Errorf("entry %s has %d parents", cur[:8], len(ps))
		}
		cur = ps[0]
	}
	res := make([]walked, len(rev))
	for i := range rev {
		res[len(rev)-1-i] = rev[i]
	}
	return res, checkNumbering(res)
}

// isAncestorMem reports whether anc is reachable from tip by parent pointers.
func isAncestorMem(st *memstore.Store, tip, anc githash.Hash) bool {
	cur := tip
	for i := 0; i < 1000000; i++ {
		if cur.Equal(anc) {
			return true
		}
		c, err := st.RawCommit(cur)
		if err != nil || len(c.Parents) == 0 {
			return false
		}
		cur = c.Parents[0]
	}
	return false
}
