package checks

import (
	"fmt"
	"os"
	"time"

	"github.com/gittuf/gittuf/internal/policy"
	"github.com/gittuf/gittuf/internal/verifharness/fw"
	"github.com/gittuf/gittuf/internal/verifharness/oracle"
	"github.com/gittuf/gittuf/internal/verifharness/scen"
)

func init() {
	fw.Register(&fw.Check{ID: "SMOKE", Level: "exploration", Rule: "smoke", MinNontrivial: 0, MaxShards: 1, Run: runSmoke})
}

func smokePolicy(mainKeys []string, thr int) scen.Policy {
	prs := []scen.Principal{}
	ids := []string{}
	for _, k := range mainKeys {
		prs = append(prs, scen.Principal{ID: "p-" + k, Keys: []string{k}})
		ids = append(ids, "p-"+k)
	}
	return scen.Policy{
		RootPrincipals: []scen.Principal{{ID: "root", Keys: []string{"root"}}}, RootThreshold: 1, RootSigners: []string{"root"},
		TargetsPrincipals: []scen.Principal{{ID: "root", Keys: []string{"root"}}}, TargetsThreshold: 1,
		Files: []scen.RuleFile{{Name: "targets", Principals: prs, Signers: []string{"root"}, Rules: []scen.Rule{{Name: "protect-main", Patterns: []string{"git:refs/heads/main"}, Principals: ids, Threshold: thr}}}},
	}
}

func runSmoke(c *fw.Ctx) {
	p1 := smokePolicy([]string{"k1", "k2"}, 2)
	h := &scen.History{Events: []scen.Event{
		{Kind: "policy", Policy: &p1, Signer: "root"},
		{Kind: "approve", Ref: "refs/heads/main", FromPush: -1, Content: "a", Approvers: []string{"k2"}, Signer: "k2"},
		{Kind: "push", Ref: "refs/heads/main", Signer: "k1", Content: "a"},
		{Kind: "push", Ref: "refs/heads/main", Signer: "kx", Content: "b"},
		{Kind: "annotate", Targets: []int{3}, Skip: true, Signer: "k1"},
		{Kind: "approve", Ref: "refs/heads/main", FromPush: 3, Content: "a", Approvers: []string{"k1"}, Signer: "k1"},
		{Kind: "push", Ref: "refs/heads/main", Signer: "k2", Content: "a"},
	}}
	for _, be := range []string{"mem", "git"} {
		var b scen.Backend
		if be == "mem" {
			b = scen.NewMem()
		} else {
			g, err := scen.NewGit(c.Scratch("smoke-git"), true)
			if err != nil {
				fmt.Fprintln(os.Stderr, "git:", err)
				continue
			}
			b = g
		}
		t0 := time.Now()
		built, _ := h.Build(b)
		tb := time.Since(t0)
		t0 = time.Now()
		tip, err := policy.NewPolicyVerifier(b).VerifyRefFull(scen.Ctx, "refs/heads/main")
		fmt.Fprintf(os.Stderr, "%s: build=%v verify=%v errs=%v tip=%s err=%v\n", be, tb, time.Since(t0), built.Errors, tip.String(), err)
	}
	v := oracle.EvalRef(h, "refs/heads/main")
	fmt.Fprintf(os.Stderr, "oracle: %+v\n", v)
	c.Eval(1)
}
