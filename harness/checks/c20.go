package checks

import (
	"context"
	"encoding/json"
	"fmt"
	"os"
	"path/filepath"
	"reflect"
	"sort"
	"strings"
	"time"

	gittuf "github.com/gittuf/gittuf/experimental/gittuf"
	hookopts "github.com/gittuf/gittuf/experimental/gittuf/options/hooks"
	"github.com/gittuf/gittuf/internal/luasandbox"
	luasandboxopts "github.com/gittuf/gittuf/internal/luasandbox/options/luasandbox"
	"github.com/gittuf/gittuf/internal/tuf"
	"github.com/gittuf/gittuf/internal/verifharness/fw"
	"github.com/gittuf/gittuf/internal/verifharness/keys"
	"github.com/gittuf/gittuf/internal/verifharness/scen"
	lua "github.com/yuin/gopher-lua"
)

// C20 — hook scripts stay inside the sandbox API and stop within their timeout.

func init() {
	fw.Register(&fw.Check{
		ID:    "C20",
		Level: "exploration",
		Rule: "(1) closure of every value reachable from the sandbox globals through table keys/values, raw metatables (incl. the string metatable), function environments, closure upvalues and prototype constants, walked from Go on the live LState (exhaustive); each Go function's code pointer is compared with a forbidden set taken from a reference LState with all standard libraries. (2) escape-attempt scripts from a grammar (getfenv/setfenv at every level and on every API, string methods via values, coroutine wrappers, pcall/xpcall around each forbidden name, assignment to existing and new members of every library table, newproxy, shadowing); after each script the walk is repeated and the library tables are compared with a pre-script snapshot. (3) non-terminating scripts with a 1-2 s timeout. (4) hook selection per signer on real repositories. " +
			"distinct = hash of the script / walked path / (policy, signer); non-trivial = every script and every reachable function",
		Assumptions: []string{
			"termination verdicts use wall-clock time with a margin: <= timeout+3 s held, > timeout+12 s violated, in between inconclusive",
			"functions that are reachable but that the statement neither allows nor forbids by name (getfenv, setfenv, newproxy, print, _printregs) are reported as 'unclassified'; a function newly appearing there makes the run inconclusive",
			"forbidden identities are Go code pointers of gopher-lua's library functions (plain functions, stable across states)",
		},
		MinNontrivial: 100,
		MaxShards:     4,
		Exhaustive: func(tier string) (bool, string) {
			return true, "the closure of values reachable from the sandbox's global table (part 1)"
		},
		Run:    runC20,
		Replay: replayC20,
	})
}

// ------------------------------------------------------------ reachability

type c20Func struct {
	Path string
	Ptr  uintptr
	IsG  bool
}

type c20Walk struct {
	Funcs  []c20Func
	Tables int
	Values int
}

func fptr(f lua.LGFunction) uintptr { return reflect.ValueOf(f).Pointer() }

func c20Reach(L *lua.LState) *c20Walk {
	w := &c20Walk{}
	seenT := map[*lua.LTable]bool{}
	seenF := map[*lua.LFunction]bool{}
	seenU := map[*lua.LUserData]bool{}
	var visit func(v lua.LValue, path string, depth int)
	visit = func(v lua.LValue, path string, depth int) {
		if v == nil || depth > 60 {
			return
		}
		w.Values++
		switch x := v.(type) {
		case *lua.LTable:
			if seenT[x] {
				return
			}
			seenT[x] = true
			w.Tables++
			x.ForEach(func(k, val lua.LValue) {
				visit(k, path+".<key>", depth+1)
				visit(val, path+"."+k.String(), depth+1)
			})
			if x.Metatable != nil && x.Metatable != lua.LNil {
				visit(x.Metatable, path+".<metatable>", depth+1)
			}
		case *lua.LFunction:
			if seenF[x] {
				return
			}
			seenF[x] = true
			if x.IsG {
				w.Funcs = append(w.Funcs, c20Func{Path: path, Ptr: fptr(x.GFunction), IsG: true})
			} else {
				w.Funcs = append(w.Funcs, c20Func{Path: path, IsG: false})
				if x.Proto != nil {
					var protos func(p *lua.FunctionProto, pth string)
					protos = func(p *lua.FunctionProto, pth string) {
						for i, c := range p.Constants {
							visit(c, fmt.Sprintf("%s.<const%d>", pth, i), depth+1)
						}
						for i, sub := range p.FunctionPrototypes {
							protos(sub, fmt.Sprintf("%s.<proto%d>", pth, i))
						}
					}
					protos(x.Proto, path)
				}
			}
			if x.Env != nil {
				visit(x.Env, path+".<env>", depth+1)
			}
			for i, uv := range x.Upvalues {
				if uv != nil {
					visit(uv.Value(), fmt.Sprintf("%s.<upvalue%d>", path, i), depth+1)
				}
			}
		case *lua.LUserData:
			if seenU[x] {
				return
			}
			seenU[x] = true
			if x.Env != nil {
				visit(x.Env, path+".<udenv>", depth+1)
			}
			if x.Metatable != nil && x.Metatable != lua.LNil {
				visit(x.Metatable, path+".<udmetatable>", depth+1)
			}
		case *lua.LState:
			if x.Env != nil {
				visit(x.Env, path+".<threadenv>", depth+1)
			}
		}
	}
	visit(L.G.Global, "_G", 0)
	visit(L.Env, "<env>", 0)
	// metatables of primitive types are reachable through values of those types
	for name, v := range map[string]lua.LValue{"string": lua.LString(""), "number": lua.LNumber(0), "bool": lua.LTrue, "nil": lua.LNil} {
		if mt := L.GetMetatable(v); mt != nil && mt != lua.LNil {
			visit(mt, "<"+name+"-metatable>", 0)
		}
	}
	return w
}

type c20Sets struct {
	forbidden      map[uintptr]string
	allowed        map[uintptr]string
	unclassifiedOK map[string]bool
}

func c20Reference() *c20Sets {
	ref := lua.NewState()
	defer ref.Close()
	s := &c20Sets{forbidden: map[uintptr]string{}, allowed: map[uintptr]string{}, unclassifiedOK: map[string]bool{}}
	get := func(path ...string) *lua.LFunction {
		var v lua.LValue = ref.G.Global
		for _, p := range path {
			t, ok := v.(*lua.LTable)
			if !ok {
				return nil
			}
			v = t.RawGetString(p)
		}
		f, _ := v.(*lua.LFunction)
		return f
	}
	add := func(m map[uintptr]string, name string, f *lua.LFunction) {
		if f != nil && f.IsG {
			m[fptr(f.GFunction)] = name
		}
	}
	for _, lib := range []string{"io", "os", "debug", "package"} {
		if t, ok := ref.G.Global.RawGetString(lib).(*lua.LTable); ok {
			t.ForEach(func(k, v lua.LValue) {
				if f, ok := v.(*lua.LFunction); ok {
					add(s.forbidden, lib+"."+k.String(), f)
				}
				if sub, ok := v.(*lua.LTable); ok { // package.loaders etc.
					sub.ForEach(func(k2, v2 lua.LValue) {
						if f, ok := v2.(*lua.LFunction); ok {
							add(s.forbidden, lib+"."+k.String()+"."+k2.String(), f)
						}
					})
				}
			})
		}
	}
	for _, n := range []string{"load", "loadstring", "loadfile", "dofile", "require", "module", "rawget", "rawset", "rawequal", "getmetatable", "setmetatable", "collectgarbage"} {
		add(s.forbidden, n, get(n))
	}
	add(s.forbidden, "string.rep", get("string", "rep"))
	add(s.forbidden, "string.dump", get("string", "dump"))
	add(s.forbidden, "math.randomseed", get("math", "randomseed"))
	// io methods live in the file metatable too
	for _, n := range []string{"assert", "error", "ipairs", "pairs", "next", "pcall", "xpcall", "select", "tonumber", "tostring", "type", "unpack"} {
		add(s.allowed, n, get(n))
	}
	for _, lib := range []string{"string", "table", "math", "coroutine"} {
		if t, ok := ref.G.Global.RawGetString(lib).(*lua.LTable); ok {
			t.ForEach(func(k, v lua.LValue) {
				if f, ok := v.(*lua.LFunction); ok && f.IsG {
					if _, bad := s.forbidden[fptr(f.GFunction)]; !bad {
						s.allowed[fptr(f.GFunction)] = lib + "." + k.String()
					}
				}
			})
		}
	}
	// iterator helpers held as upvalues by allowed functions (ipairs/pairs/gmatch/gfind)
	var addUp func(f *lua.LFunction, name string)
	addUp = func(f *lua.LFunction, name string) {
		if f == nil {
			return
		}
		for i, uv := range f.Upvalues {
			if uv == nil {
				continue
			}
			if g, ok := uv.Value().(*lua.LFunction); ok && g.IsG {
				if _, bad := s.forbidden[fptr(g.GFunction)]; !bad {
					s.allowed[fptr(g.GFunction)] = fmt.Sprintf("%s.<upvalue%d>", name, i)
				}
			}
		}
	}
	for _, n := range []string{"ipairs", "pairs", "next"} {
		addUp(get(n), n)
	}
	for _, n := range []string{"gmatch", "gfind", "gsub", "find", "match"} {
		addUp(get("string", n), "string."+n)
	}
	for _, n := range []string{"wrap", "create"} {
		addUp(get("coroutine", n), "coroutine."+n)
	}
	for _, n := range []string{"getfenv", "setfenv", "newproxy", "print", "_printregs"} {
		s.unclassifiedOK[n] = true
		if f := get(n); f != nil && f.IsG {
			s.allowed[fptr(f.GFunction)] = "unclassified:" + n
		}
	}
	return s
}

// c20Judge classifies one walk. apiPtrs are the registered Go APIs.
func c20JudgeWalk(c *fw.Ctx, sets *c20Sets, w *c20Walk, apiPtrs map[uintptr]string, context string, witness any) (forbiddenFound bool) {
	for _, f := range w.Funcs {
		if !f.IsG {
			continue // Lua closures: their constants/upvalues/env were walked
		}
		if name, bad := sets.forbidden[f.Ptr]; bad {
			forbiddenFound = true
			c.Violation("forbidden-function-reachable", map[string]string{"function": name, "when": context}, fmt.Sprintf("%s is reachable at %s (%s)", name, f.Path, context), witness)
			continue
		}
		if name, ok := sets.allowed[f.Ptr]; ok {
			if strings.HasPrefix(name, "unclassified:") {
				c.SetAdd("unclassified_reachable", strings.TrimPrefix(name, "unclassified:"))
			}
			continue
		}
		if _, ok := apiPtrs[f.Ptr]; ok {
			continue
		}
		// closures created by the sandbox itself (the __newindex guards) share one code pointer
		if strings.Contains(f.Path, "__newindex") {
			continue
		}
		c.Inconclusive("unknown Go function reachable: " + f.Path)
	}
	return forbiddenFound
}

func c20APIPtrs(env *luasandbox.LuaEnvironment) map[uintptr]string {
	out := map[uintptr]string{}
	for _, a := range env.GetAPIs() {
		if g, ok := a.(*luasandbox.GoAPI); ok {
			out[fptr(g.Implementation)] = g.Name
		}
	}
	return out
}

// c20LibTables captures the library table objects of a fresh sandbox (the table
// scripts see may be a read-only proxy in front of the real one: both are kept).
func c20LibTables(L *lua.LState) map[string][]*lua.LTable {
	out := map[string][]*lua.LTable{}
	for _, lib := range []string{"string", "table", "math", "coroutine"} {
		t, ok := L.G.Global.RawGetString(lib).(*lua.LTable)
		if !ok {
			continue
		}
		out[lib] = append(out[lib], t)
		if mt, ok := t.Metatable.(*lua.LTable); ok {
			if idx, ok := mt.RawGetString("__index").(*lua.LTable); ok {
				out[lib] = append(out[lib], idx)
			}
		}
	}
	return out
}

// c20Snapshot: lib.member -> identity, read raw from the captured table objects.
func c20Snapshot(tables map[string][]*lua.LTable) map[string]string {
	out := map[string]string{}
	for lib, ts := range tables {
		for i, t := range ts {
			t.ForEach(func(k, val lua.LValue) {
				id := val.Type().String() + ":" + val.String()
				if f, ok := val.(*lua.LFunction); ok && f.IsG {
					id = fmt.Sprintf("gofunc:%x", fptr(f.GFunction))
				}
				out[fmt.Sprintf("%s[%d].%s", lib, i, k.String())] = id
			})
		}
	}
	return out
}

type c20Script struct {
	Kind   string `json:"kind"`
	Script string `json:"script"`
}

func c20NewEnv(c *fw.Ctx, repo *scen.Git, timeout int) (*luasandbox.LuaEnvironment, error) {
	return luasandbox.NewLuaEnvironment(context.Background(), repo.Repository, luasandboxopts.WithLuaTimeout(timeout))
}

func c20EscapeScripts(quick bool) []string {
	forbidden := []string{"io", "os", "debug", "package", "load", "loadstring", "loadfile", "dofile", "require", "module", "rawget", "rawset", "rawequal", "getmetatable", "setmetatable", "collectgarbage", "_G"}
	libs := map[string][]string{
		"string":    {"format", "sub", "find", "gsub", "upper", "len", "rep", "dump", "newmember"},
		"table":     {"insert", "concat", "remove", "sort", "newmember"},
		"math":      {"floor", "random", "randomseed", "huge", "newmember"},
		"coroutine": {"create", "wrap", "resume", "newmember"},
	}
	apis := []string{"matchRegex", "strSplit", "gitReadBlob", "gitGetReference", "gitGetCommitMessage"}
	out := []string{}
	for _, f := range forbidden {
		out = append(out,
			fmt.Sprintf("local ok, v = pcall(function() return %s end); if v ~= nil then canary = v end; return 0", f),
			fmt.Sprintf("local e = getfenv(0); local v = e[%q]; if v ~= nil then canary = v end; return 0", f),
			fmt.Sprintf("local e = getfenv(1); local v = e and e[%q]; if v ~= nil then canary = v end; return 0", f),
			fmt.Sprintf("local ok, v = xpcall(function() return getfenv(pcall)[%q] end, function(e) return e end); if ok and v ~= nil then canary = v end; return 0", f),
			fmt.Sprintf("local co = coroutine.wrap(function() return getfenv(0)[%q] end); local v = co(); if v ~= nil then canary = v end; return 0", f),
		)
		for _, a := range apis {
			out = append(out, fmt.Sprintf("local e = getfenv(%s); local v = e and e[%q]; if v ~= nil then canary = v end; return 0", a, f))
		}
	}
	for lib, members := range libs {
		for _, m := range members {
			out = append(out,
				fmt.Sprintf("%s.%s = function() return 'pwned' end; return 0", lib, m),
				fmt.Sprintf("local ok = pcall(function() %s.%s = nil end); return 0", lib, m),
				fmt.Sprintf("local t = %s; t[%q] = 1; return 0", lib, m),
				fmt.Sprintf("local e = getfenv(0); e[%q][%q] = print; return 0", lib, m),
				fmt.Sprintf("pcall(table.insert, %s, 1); pcall(table.remove, %s); return 0", lib, lib),
			)
		}
		out = append(out,
			fmt.Sprintf("%s = {}; return 0", lib),
			fmt.Sprintf("local e = getfenv(0); e[%q] = nil; return 0", lib),
			fmt.Sprintf("setfenv(0, {}); return 0"),
			fmt.Sprintf("for k, v in pairs(%s) do pcall(function() %s[k] = nil end) end; return 0", lib, lib),
		)
	}
	out = append(out,
		"local s = ('x'):rep(10); return 0",
		"local f = ('').rep; if f then canary = f end; return 0",
		"local f = ('').dump; if f then canary = f end; return 0",
		"local mt = ('').getmetatable; return 0",
		"local p = newproxy(true); local ok, mt = pcall(getmetatable, p); return 0",
		"local p = newproxy(true); canary = p; return 0",
		"matchRegex = function() return true end; return 0",
		"gitReadBlob = nil; return 0",
		"setfenv(matchRegex, {}); return 0",
		"setfenv(1, {string = {}}); return 0",
		"local f = coroutine.wrap(function() setfenv(0, {}) end); pcall(f); return 0",
		"hookExitCode = 'x'; return hookExitCode",
		"return string",
		"return nil",
		"return {1}",
		"return '0'",
		"return true",
		"return",
		"error('boom')",
		"return 0/0",
		"return 1e400",
		"return -3.7",
	)
	if !quick {
		// second-order: combine wrappers
		base := append([]string{}, out[:60]...)
		for _, s := range base {
			out = append(out, "pcall(function() "+strings.Replace(s, "return 0", "", 1)+" end); return 0")
			out = append(out, "local co = coroutine.create(function() "+strings.Replace(s, "return 0", "", 1)+" end); coroutine.resume(co); return 0")
		}
	}
	return out
}

func c20Part12(c *fw.Ctx, repo *scen.Git) {
	sets := c20Reference()
	env, err := c20NewEnv(c, repo, 30)
	if err != nil {
		c.Inconclusive("cannot create sandbox: " + err.Error())
		return
	}
	apiPtrs := c20APIPtrs(env)
	L := env.VerifLState()
	w := c20Reach(L)
	c.Eval(1)
	c.Note("closure", map[string]any{"values": w.Values, "tables": w.Tables, "functions": len(w.Funcs)})
	for _, f := range w.Funcs {
		c.Nontrivial("reach:" + f.Path)
	}
	c20JudgeWalk(c, sets, w, apiPtrs, "fresh sandbox", map[string]any{"kind": "reachability"})
	// forbidden *names* must not resolve either (a nil'd global that is re-exposed under the same name)
	for _, n := range []string{"io", "os", "debug", "package", "load", "loadstring", "loadfile", "dofile", "require", "module", "rawget", "rawset", "rawequal", "getmetatable", "setmetatable", "collectgarbage"} {
		if v := L.G.Global.RawGetString(n); v != lua.LNil {
			c.Violation("forbidden-global-defined", map[string]string{"name": n}, fmt.Sprintf("global %s is defined (%s)", n, v.Type().String()), map[string]any{"kind": "reachability"})
		}
	}
	for _, pair := range [][2]string{{"string", "rep"}, {"string", "dump"}, {"math", "randomseed"}} {
		if t, ok := L.G.Global.RawGetString(pair[0]).(*lua.LTable); ok {
			if v := L.GetField(t, pair[1]); v != lua.LNil {
				c.Violation("forbidden-global-defined", map[string]string{"name": pair[0] + "." + pair[1]}, fmt.Sprintf("%s.%s is defined", pair[0], pair[1]), map[string]any{"kind": "reachability"})
			}
		}
	}
	env.Cleanup()

	// part 2: escape attempts, each in a fresh sandbox
	scripts := c20EscapeScripts(c.Quick())
	canaryDir := c.Scratch("canary")
	for i, sc := range scripts {
		if !c.Mine(i) {
			continue
		}
		c.Eval(1)
		c.Nontrivial("escape:" + sc)
		cs := c20Script{Kind: "escape", Script: sc}
		env, err := c20NewEnv(c, repo, 10)
		if err != nil {
			c.Inconclusive("cannot create sandbox")
			continue
		}
		L := env.VerifLState()
		libs := c20LibTables(L)
		before := c20Snapshot(libs)
		c.Guard(cs, func() {
			code, rerr := env.RunScript(sc, lua.LTable{})
			_ = code
			_ = rerr
			after := c20Snapshot(libs)
			changed := []string{}
			for k, v := range before {
				if after[k] != v {
					changed = append(changed, k)
				}
			}
			for k := range after {
				if _, ok := before[k]; !ok {
					changed = append(changed, k+"(added)")
				}
			}
			sort.Strings(changed)
			if len(changed) > 0 {
				how := "existing-member"
				for _, ch := range changed {
					if strings.HasSuffix(ch, "(added)") {
						how = "new-member"
					}
				}
				c.Violation("library-table-modified", map[string]string{"how": how}, fmt.Sprintf("after the script, library members differ: %v", changed), cs)
			}
			w2 := c20Reach(L)
			c20JudgeWalk(c, sets, w2, apiPtrs, "after escape script", cs)
			if entries, _ := os.ReadDir(canaryDir); len(entries) > 0 {
				c.Violation("filesystem-touched", nil, "a file appeared in the canary directory", cs)
			}
			// return-value contract
			if strings.HasPrefix(sc, "return") && rerr == nil {
				wantNumber := map[string]bool{"return 0/0": true, "return 1e400": true, "return -3.7": true}
				if !wantNumber[sc] && sc != "return hookExitCode" && code != 1 {
					c.Violation("non-number-return-not-failed", nil, fmt.Sprintf("script %q returned exit code %d, expected 1 (failed)", sc, code), cs)
				}
			}
		})
		env.Cleanup()
		if i%40 == 0 {
			c.Sample(cs)
		}
	}
	c.Count("escape_scripts_total", len(scripts))
}

// ------------------------------------------------------------- termination

func c20Termination(c *fw.Ctx, repo *scen.Git) {
	type ts struct {
		name, script string
		timeout      int
		class        string // where the time is spent when the deadline passes
	}
	scripts := []ts{
		{"tight-loop", "while true do end", 1, "script loop"},
		{"counting-loop", "local i = 0; while true do i = i + 1 end", 2, "script loop"},
		{"deep-recursion", "local function f(n) return 1 + f(n + 1) end; return f(1)", 1, "script loop"},
		{"coroutine-ping-pong", "local a = coroutine.wrap(function() while true do coroutine.yield(1) end end); while true do a() end", 1, "script loop"},
		{"giant-concat", "local s = 'x'; while true do s = s .. 'xxxxxxxxxxxxxxxx' end", 2, "script loop"},
		{"table-growth", "local t = {}; while true do t[#t + 1] = #t end", 1, "script loop"},
		{"pcall-loop", "while true do pcall(error, 'x') end", 1, "script loop"},
		{"regex-large-input", "local s = 'a'; for i = 1, 22 do s = s .. s end; local n = 0; while true do if matchRegex('(a+)+$', s) then n = n + 1 end end", 2, "script loop"},
		{"recursion", "local function f() return f() end; return f()", 1, "unbounded tail recursion (error traceback grows with the tail-call count)"},
		{"tail-recursion-args", "local function f(n) return f(n + 1) end; return f(1)", 1, "unbounded tail recursion (error traceback grows with the tail-call count)"},
		{"pattern-blowup-find", "local s = ('a'):format() ; s = 'aaaaaaaaaaaaaaaaaaaaaaaaaaaaaaaaaaaaaaaaaaaaaaaaaaaaaaaaaaaa'; return #tostring(string.find(s, '(a*)*(a*)*(a*)*(a*)*(a*)*(a*)*(a*)*(a*)*b'))", 1, "inside string.find/gsub/match"},
		{"pattern-blowup-gsub", "local s = 'aaaaaaaaaaaaaaaaaaaaaaaaaaaaaaaaaaaaaaaaaaaaaaaaaaaaaaaaaaaa'; return #string.gsub(s, 'a-a-a-a-a-a-a-a-a-a-a-a-a-a-a-a-a-a-a-a-a-a-a-a-a-a-a-a-b', '')", 1, "inside string.find/gsub/match"},
	}
	for i, sc := range scripts {
		if !c.Mine(i) {
			continue
		}
		c.Eval(1)
		c.Nontrivial("terminate:" + sc.name)
		cs := c20Script{Kind: "termination:" + sc.name, Script: sc.script}
		env, err := c20NewEnv(c, repo, sc.timeout)
		if err != nil {
			c.Inconclusive("cannot create sandbox")
			continue
		}
		done := make(chan struct{})
		var code int
		var rerr error
		start := time.Now()
		go func() {
			defer func() { recover(); close(done) }()
			code, rerr = env.RunScript(sc.script, lua.LTable{})
		}()
		limit := time.Duration(sc.timeout)*time.Second + 12*time.Second
		select {
		case <-done:
			el := time.Since(start)
			switch {
			case el <= time.Duration(sc.timeout)*time.Second+3*time.Second:
				c.Count("terminated_in_time", 1)
				if rerr == nil && code == 0 && !strings.HasPrefix(sc.script, "local s = ('a')") {
					// finished by itself successfully before the deadline: not a runaway on this machine
					c.Count("finished_normally", 1)
				}
			case el > limit:
				c.Violation("timeout-overrun", map[string]string{"where": sc.class}, fmt.Sprintf("script %s ran %.1fs with a %ds timeout", sc.name, el.Seconds(), sc.timeout), cs)
			default:
				c.Inconclusive(fmt.Sprintf("termination: %s stopped after %.1fs (grey band)", sc.name, el.Seconds()))
			}
		case <-time.After(limit):
			c.Violation("timeout-overrun", map[string]string{"where": sc.class}, fmt.Sprintf("script %s still running %.0fs after start with a %ds timeout", sc.name, limit.Seconds(), sc.timeout), cs)
			// the goroutine is abandoned; it dies with this worker process
		}
		env.Cleanup()
	}
}

// ------------------------------------------------------------- hook selection

func c20HookSelection(c *fw.Ctx) {
	n := c.Pick(6, 200) / c.NShards
	if n < 1 {
		n = 1
	}
	r := c.Rand(uint64(2000 + c.Shard))
	for it := 0; it < n; it++ {
		g, cleanup, err := newScratchWorktreeGit(c, "c20hooks")
		if err != nil {
			c.Inconclusive("git init")
			return
		}
		markerDir := c.Scratch(fmt.Sprintf("markers-%d", it))
		_ = markerDir
		// principals: person A owns k1; person B owns k2 and k3; key principal k4; k5 shared by persons C and D
		prs := []scen.Principal{
			{ID: "A", Keys: []string{"k1"}, Person: true},
			{ID: "B", Keys: []string{"k2", "k3"}, Person: true},
			{ID: "P4", Keys: []string{"k4"}},
			{ID: "C", Keys: []string{"k5"}, Person: true},
			{ID: "D", Keys: []string{"k5"}, Person: true},
		}
		nHooks := 2 + r.IntN(4)
		hooks := []scen.Hook{}
		for h := 0; h < nHooks; h++ {
			script := fmt.Sprintf("return %d", 10+h)
			blob, err := g.WriteBlob([]byte(script))
			if err != nil {
				c.Inconclusive("write blob")
				continue
			}
			assigned := []string{}
			for _, p := range prs {
				if r.IntN(3) == 0 {
					assigned = append(assigned, p.ID)
				}
			}
			if len(assigned) == 0 {
				assigned = []string{prs[r.IntN(len(prs))].ID}
			}
			stages := [][]string{{"pre-commit"}, {"pre-push"}, {"pre-commit", "pre-push"}}[r.IntN(3)]
			hooks = append(hooks, scen.Hook{Name: fmt.Sprintf("hook%d", h), Stages: stages, Principals: assigned, BlobID: blob.String(), Timeout: 5})
		}
		pol := scen.Policy{
			RootPrincipals: []scen.Principal{rootPrincipal}, RootThreshold: 1, RootSigners: []string{"root"},
			TargetsPrincipals: []scen.Principal{rootPrincipal}, TargetsThreshold: 1,
			Files: []scen.RuleFile{{Name: "targets", Principals: prs, Signers: []string{"root"}, Rules: []scen.Rule{{Name: "protect-main", Patterns: []string{"git:" + refMain}, Principals: []string{"A", "B", "P4", "C", "D"}, Threshold: 1}}}},
			Hooks: hooks,
		}
		if err := scen.StageAndApply(g, pol, "root"); err != nil {
			cleanup()
			c.Inconclusive("policy with hooks: " + trunc(err.Error(), 80))
			continue
		}
		if cm, err := g.CommitFiles(map[string]string{"f": "x"}, nil, "c", nil); err == nil {
			_ = g.SetRef(refMain, cm)
		}
		// a staged-but-unapplied policy that assigns every hook to everybody must not matter
		all := pol.Clone()
		for i := range all.Hooks {
			all.Hooks[i].Principals = []string{"A", "B", "P4", "C", "D"}
		}
		if st, err := all.BuildState(); err == nil {
			g.SetSigner(nil)
			_ = st.Commit(g, "staged only\n", true, false)
		}
		api, err := gittuf.LoadRepository(g.Dir)
		if err != nil {
			cleanup()
			c.Inconclusive("load repository")
			continue
		}
		for _, key := range []string{"k1", "k2", "k3", "k4", "k5", "kx"} {
			for _, stage := range []tuf.HookStage{tuf.HookStagePreCommit, tuf.HookStagePrePush} {
				c.Eval(1)
				stageName := "pre-commit"
				if stage == tuf.HookStagePrePush {
					stageName = "pre-push"
				}
				owners := []string{}
				for _, p := range prs {
					for _, k := range p.Keys {
						if k == key {
							owners = append(owners, p.ID)
						}
					}
				}
				assignedTo := func(pid string) map[string]bool {
					out := map[string]bool{}
					for _, h := range hooks {
						inStage := false
						for _, s := range h.Stages {
							if s == stageName {
								inStage = true
							}
						}
						if !inStage {
							continue
						}
						for _, p := range h.Principals {
							if p == pid {
								out[h.Name] = true
							}
						}
					}
					return out
				}
				cs := map[string]any{"kind": "hook-selection", "hooks": hooks, "key": key, "stage": stageName}
				c.Nontrivial(fw.Hash(hooks, key, stageName))
				opts := []hookopts.Option{}
				if stage == tuf.HookStagePrePush {
					opts = append(opts, hookopts.WithPrePush("origin", "https://example.com/r", []string{refMain + ":" + refMain}))
				}
				res, err := api.InvokeHooksForStage(context.Background(), keys.DSSE{A: keys.Get(key)}, stage, opts...)
				ran := []string{}
				for name := range res {
					ran = append(ran, name)
				}
				sort.Strings(ran)
				if len(owners) == 0 {
					if err == nil && len(ran) > 0 {
						c.Violation("hooks-run-for-unknown-key", nil, fmt.Sprintf("key %s belongs to no principal, yet hooks %v ran", key, ran), cs)
					}
					continue
				}
				union := map[string]bool{}
				okForSome := false
				for _, o := range owners {
					set := assignedTo(o)
					same := len(set) == len(ran)
					for _, n := range ran {
						if !set[n] {
							same = false
						}
						union[n] = union[n] || set[n]
					}
					for n := range set {
						union[n] = true
					}
					if same {
						okForSome = true
					}
				}
				for _, n := range ran {
					if !union[n] {
						c.Violation("hook-run-for-unassigned-principal", nil, fmt.Sprintf("signer %s (principals %v) was run hook %s which the applied policy assigns to none of them", key, owners, n), cs)
					}
				}
				if len(owners) == 1 && !okForSome {
					c.Violation("hook-set-mismatch", nil, fmt.Sprintf("signer %s (principal %s): hooks run %v, applied policy assigns %v (err=%v)", key, owners[0], ran, keysOf(assignedTo(owners[0])), err), cs)
				}
				for name, code := range res {
					var idx int
					fmt.Sscanf(name, "hook%d", &idx)
					if code != 10+idx {
						c.Violation("hook-exit-code-wrong", nil, fmt.Sprintf("hook %s returned %d, its script returns %d", name, code, 10+idx), cs)
					}
				}
				c.Count("hook_selection_checked", 1)
			}
		}
		cleanup()
	}
}

func runC20(c *fw.Ctx) {
	g, cleanup, err := newScratchGit(c, "c20")
	if err != nil {
		c.Inconclusive("git init")
		return
	}
	defer cleanup()
	// a blob and a ref for the APIs to read
	cm, _ := g.CommitFiles(map[string]string{"f": "hello"}, nil, "c", nil)
	_ = g.SetRef(refMain, cm)
	c20Part12(c, g)
	c20HookSelection(c)
	c20Termination(c, g) // last: abandoned runaway goroutines die with the process
	_ = filepath.Join
}

func replayC20(c *fw.Ctx, raw json.RawMessage) error {
	var cs c20Script
	if err := json.Unmarshal(raw, &cs); err != nil {
		return err
	}
	if cs.Script == "" {
		var w struct {
			Case c20Script `json:"case"`
		}
		if err := json.Unmarshal(raw, &w); err == nil {
			cs = w.Case
		}
	}
	if cs.Script == "" {
		fmt.Println(string(raw))
		return fmt.Errorf("witness is self-describing (not a script)")
	}
	g, cleanup, err := newScratchGit(c, "c20replay")
	if err != nil {
		return err
	}
	defer cleanup()
	env, err := c20NewEnv(c, g, 5)
	if err != nil {
		return err
	}
	libs := c20LibTables(env.VerifLState())
	before := c20Snapshot(libs)
	code, rerr := env.RunScript(cs.Script, lua.LTable{})
	after := c20Snapshot(libs)
	fmt.Printf("script: %s\nexit=%d err=%v\n", cs.Script, code, rerr)
	for k, v := range before {
		if after[k] != v {
			fmt.Printf("library member changed: %s: %s -> %s\n", k, v, after[k])
			c.Violation("library-table-modified", nil, k, cs)
		}
	}
	return nil
}
