package checks

import (
	"encoding/json"
	"fmt"
	"github.com/gittuf/gittuf/internal/verifharness/keys"
	"github.com/gittuf/gittuf/pkg/githash"
	"math/rand/v2"
	"sort"
	"strings"
	"sync"

	"github.com/gittuf/gittuf/internal/cache"
	"github.com/gittuf/gittuf/internal/policy"
	"github.com/gittuf/gittuf/internal/verifharness/fw"
	"github.com/gittuf/gittuf/internal/verifharness/oracle"
	"github.com/gittuf/gittuf/internal/verifharness/scen"
	"github.com/gittuf/gittuf/pkg/rsl"
)

// C08 — verdicts depend only on the log: never on cache, repetition or checkpoint.
//
// Purely differential. Reference run: no persistent cache, cold process cache.
// Every other configuration of the same log must report the same
// (accept/reject, tip) for every ref and mode, and verification may write no
// reference other than refs/local/gittuf/persistent-cache.

func init() {
	fw.Register(&fw.Check{
		ID:    "C08",
		Level: "exploration",
		Rule: "histories from the C01 generator (no shared keys) x cache configurations {none; PopulatePersistentCache when the log had k entries, for PRNG-chosen (quick) / every (thorough) k, the rest of the log recorded afterwards; populated then advanced by a seeded sequence of earlier verifications of this and other refs in full / latest-only mode} x verification order x repetition on one PolicyVerifier x warm/cold process-wide RSL cache. " +
			"distinct = hash(history, configuration); non-trivial = the history has a policy change or an unauthorized entry, and the configuration has a cache",
		Assumptions: []string{
			"the reference verdict is the one without any persistent cache and with a cold process cache",
			"same memstore fidelity argument as C01; the violating configurations are replayed on real git",
		},
		MinNontrivial: 300,
		Run:           runC08,
		RaceRun:       raceC08,
		Replay:        replayC08,
	})
}

type c08Config struct {
	PopulateAt int      `json:"populate_at"` // number of events built before PopulatePersistentCache; -1 = never
	Steps      []string `json:"steps"`       // verifications performed, in order, e.g. "3:full:refs/heads/main" (at event position 3) ; position -1 = after the whole log
	Warm       bool     `json:"warm"`        // process-wide RSL cache kept from the build
}

type c08Case struct {
	History *scen.History `json:"history"`
	Config  c08Config     `json:"config"`
	Events  []string      `json:"events,omitempty"`
}

type c08Verdict struct {
	Accept bool
	Tip    string
}

func c08Verify(b scen.Backend, mode, ref string, built *scen.Built) c08Verdict {
	v := policy.NewPolicyVerifier(b)
	var (
		err error
		tip interface{ String() string }
	)
	switch mode {
	case "full":
		t, e := v.VerifyRefFull(scen.Ctx, ref)
		tip, err = t, e
	default:
		t, e := v.VerifyRef(scen.Ctx, ref)
		tip, err = t, e
	}
	out := c08Verdict{Accept: err == nil}
	if err == nil {
		// commit IDs differ between builds (the commit clock ticks when a cache
		// commit is made), so the tip is reported as the event that created it
		out.Tip = "unknown:" + tip.String()
		if built != nil {
			for i, id := range built.CommitID {
				if id != nil && id.String() == tip.String() {
					out.Tip = fmt.Sprintf("event#%d", i)
				}
			}
		}
	}
	return out
}

func refsExceptCache(b scen.Backend) string {
	refs := b.(scen.RefLister).Refs()
	delete(refs, cache.Ref)
	keys := make([]string, 0, len(refs))
	for k := range refs {
		keys = append(keys, k)
	}
	sort.Strings(keys)
	var sb strings.Builder
	for _, k := range keys {
		sb.WriteString(k + "=" + refs[k] + "\n")
	}
	return sb.String()
}

// c08Run executes one configuration and returns the final verdicts per
// "mode:ref", plus whether verification wrote a non-cache reference.
func c08Run(h *scen.History, cfg c08Config) (map[string]c08Verdict, string, error) {
	return c08RunOn(scen.NewMem(), h, cfg)
}

func c08RunOn(b scen.Backend, h *scen.History, cfg c08Config) (map[string]c08Verdict, string, error) {
	rsl.VerifResetCache()
	bl := scen.NewBuilder(h, b)
	stepsAt := map[int][]string{}
	for _, s := range cfg.Steps {
		var pos int
		var rest string
		fmt.Sscanf(s, "%d:", &pos)
		rest = s[strings.Index(s, ":")+1:]
		stepsAt[pos] = append(stepsAt[pos], rest)
	}
	wrote := ""
	runSteps := func(pos int) {
		for _, s := range stepsAt[pos] {
			parts := strings.SplitN(s, ":", 2)
			before := refsExceptCache(b)
			c08Verify(b, parts[0], parts[1], nil)
			if after := refsExceptCache(b); after != before {
				wrote = fmt.Sprintf("verification %s changed references:\nbefore:\n%safter:\n%s", s, before, after)
			}
		}
	}
	for bl.Next() {
		if bl.Pos() == cfg.PopulateAt {
			if err := cache.PopulatePersistentCache(b); err != nil {
				return nil, "", fmt.Errorf("populate at %d: %w", cfg.PopulateAt, err)
			}
		}
		runSteps(bl.Pos())
		bl.Step()
	}
	if cfg.PopulateAt == len(h.Events) {
		if err := cache.PopulatePersistentCache(b); err != nil {
			return nil, "", fmt.Errorf("populate at end: %w", err)
		}
	}
	for _, e := range bl.Out.Errors {
		if e != "" {
			return nil, "", fmt.Errorf("builder: %s", e)
		}
	}
	runSteps(-1)
	if !cfg.Warm {
		rsl.VerifResetCache()
	}
	out := map[string]c08Verdict{}
	for _, ref := range histRefs {
		if _, _, err := rsl.GetLatestReferenceUpdaterEntry(b, rsl.ForReference(ref)); err != nil {
			continue
		}
		for _, mode := range []string{"full", "latest"} {
			before := refsExceptCache(b)
			v1 := c08Verify(b, mode, ref, bl.Out)
			out[mode+":"+ref] = v1
			if after := refsExceptCache(b); after != before {
				wrote = fmt.Sprintf("verification %s:%s changed references", mode, ref)
			}
			// repetition
			v2 := c08Verify(b, mode, ref, bl.Out)
			if v1 != v2 {
				out["repeat:"+mode+":"+ref] = v2
			}
		}
	}
	return out, wrote, nil
}

func c08GenConfig(r *rand.Rand, h *scen.History, k int) c08Config {
	cfg := c08Config{PopulateAt: k, Warm: r.IntN(2) == 0}
	nSteps := r.IntN(4)
	for i := 0; i < nSteps; i++ {
		pos := -1
		if r.IntN(3) != 0 && k < len(h.Events) {
			pos = k + r.IntN(len(h.Events)-k)
		}
		mode := []string{"full", "latest"}[r.IntN(2)]
		cfg.Steps = append(cfg.Steps, fmt.Sprintf("%d:%s:%s", pos, mode, histRefs[r.IntN(len(histRefs))]))
	}
	return cfg
}

// c08TamperedRepetition: a log whose newest entry carries a number that does not
// follow its parent's (a gap) is verified several times in one process without
// resetting anything. Whatever the first verdict is (C04 judges that), every
// repetition and the latest-only mode after it must give the same one: the
// process cache may not remember its way across a break it refused before.
func c08TamperedRepetition(c *fw.Ctx) {
	r := c.Rand(uint64(850 + c.Shard))
	n := c.Pick(64, 1600) / c.NShards
	for i := 0; i < n; i++ {
		h := genHistory(r, histOpts{Len: 4 + r.IntN(8), NoApprovals: true})
		c08TamperedOne(c, h, 2+r.IntN(2))
	}
}

func c08TamperedOne(c *fw.Ctx, h *scen.History, gap int) {
	c.Eval(1)
	cs := c08Case{History: h, Config: c08Config{PopulateAt: -1, Steps: []string{fmt.Sprintf("tampered-log-repetition:%d", gap)}}, Events: describeHistory(h)}
	c.Guard(cs, func() {
		rsl.VerifResetCache()
		b := scen.NewMem()
		_, _ = h.Build(b)
		tip, err := b.GetReference(refMain)
		if err != nil {
			return // no push to main in this history
		}
		latest, err := rsl.GetLatestEntry(b)
		if err != nil {
			return
		}
		e := rsl.NewReferenceEntry(refMain, tip)
		e.Number = latest.GetNumber() + uint64(gap)
		msg, _ := rsl.VerifCanonicalText(e)
		empty, _ := b.EmptyTree()
		rslTip, _ := b.GetReference(rsl.Ref)
		b.ForceRef(rsl.Ref, b.CreateCommit(empty, []githash.Hash{rslTip}, msg, keys.Get("k1")))
		rsl.VerifResetCache()
		verdicts := []string{}
		for j := 0; j < 3; j++ {
			_, verr := policy.NewPolicyVerifier(b).VerifyRefFull(scen.Ctx, refMain)
			verdicts = append(verdicts, fmt.Sprint(verr == nil))
		}
		_, lerr := policy.NewPolicyVerifier(b).VerifyRef(scen.Ctx, refMain)
		verdicts = append(verdicts, fmt.Sprint(lerr == nil))
		c.Nontrivial(fw.Hash("tampered-repetition", h))
		for _, v := range verdicts[1:] {
			if v != verdicts[0] {
				c.Violation("verdict-changes-on-repetition", map[string]string{"log": "numbering-gap"}, fmt.Sprintf("a log whose newest entry skips a number, verified 3x in full mode then latest-only in one process: accepted = %v", verdicts), cs)
				return
			}
		}
		c.Count("tampered-log-repetition:stable:"+verdicts[0], 1)
	})
}

func runC08(c *fw.Ctx) {
	c08TamperedRepetition(c)
	c08RecoveryPatterns(c)
	n := c.Pick(600, 8000) / c.NShards
	r := c.Rand(uint64(800 + c.Shard))
	for i := 0; i < n; i++ {
		h := genHistory(r, histOpts{Len: 5 + r.IntN(14)})
		ks := []int{}
		if c.Thorough() {
			for k := 2; k <= len(h.Events); k++ {
				ks = append(ks, k)
			}
		} else {
			for j := 0; j < 3; j++ {
				ks = append(ks, 2+r.IntN(len(h.Events)-1))
			}
		}
		cfgs := []c08Config{}
		for _, k := range ks {
			cfgs = append(cfgs, c08GenConfig(r, h, k))
		}
		// no persistent cache but earlier verifications / warm process cache
		cfgs = append(cfgs, c08GenConfig(r, h, -1))
		c08Judge(c, h, cfgs)
	}
}

// c08RecoveryPatterns feeds the C07 flag patterns (violations, revocations,
// fixes, unrevoked intermediates) through the cache configurations: recovery is
// where the verifier records checkpoints in the middle of a run.
func c08RecoveryPatterns(c *fw.Ctx) {
	idx := 0
	stride := c.Pick(5, 1)
	for L := 1; L <= 3; L++ {
		total := 1
		for i := 0; i < L; i++ {
			total *= 12
		}
		for code := 0; code < total; code++ {
			mine := c.Mine(idx)
			idx++
			if !mine || idx%stride != 0 {
				continue
			}
			flags := make([]c07Flag, L)
			x := code
			for i := range flags {
				d := x % 12
				x /= 12
				flags[i] = c07Flag{Outsider: d%2 == 1, B: (d/2)%2 == 1, Skip: d / 4}
			}
			r := c.Rand(uint64(8100000 + idx))
			h := c07Build(r, flags, false)
			cfgs := []c08Config{
				{PopulateAt: len(h.Events)},                                        // complete index, verification repeated
				{PopulateAt: 2 + r.IntN(len(h.Events)-1)},                          // populated earlier
				{PopulateAt: len(h.Events), Steps: []string{"-1:full:" + refMain}}, // a full run first (may fail half way)
			}
			c08Judge(c, h, cfgs)
		}
	}
}

func c08Judge(c *fw.Ctx, h *scen.History, cfgs []c08Config) {
	ref, _, err := c08Run(h, c08Config{PopulateAt: -1})
	if err != nil {
		c.Eval(1)
		c.Inconclusive("reference run: builder")
		c.Note("last_builder_error", err.Error())
		return
	}
	interesting := false
	pols := 0
	for _, e := range h.Events {
		if e.Kind == "policy" {
			pols++
		}
	}
	for _, v := range ref {
		if !v.Accept {
			interesting = true
		}
	}
	interesting = interesting || pols > 1
	for _, cfg := range cfgs {
		c.Eval(1)
		cs := c08Case{History: h, Config: cfg, Events: describeHistory(h)}
		c.Guard(cs, func() {
			got, wrote, err := c08Run(h, cfg)
			if err != nil {
				if strings.Contains(err.Error(), "populate") {
					c.Violation("populate-failed", nil, "PopulatePersistentCache failed on a well-formed numbered log: "+err.Error(), cs)
					return
				}
				c.Inconclusive("config run: builder")
				return
			}
			if interesting && (cfg.PopulateAt >= 0 || len(cfg.Steps) > 0) {
				c.Nontrivial(fw.Hash(h, cfg))
			}
			c.SetAdd("configurations", fmt.Sprintf("pop=%v steps=%d warm=%v", cfg.PopulateAt >= 0, len(cfg.Steps), cfg.Warm))
			if wrote != "" {
				c.Violation("verification-wrote-reference", nil, wrote, cs)
			}
			keys := make([]string, 0, len(ref))
			for k := range ref {
				keys = append(keys, k)
			}
			sort.Strings(keys)
			for _, k := range keys {
				want, have := ref[k], got[k]
				if want != have {
					mode := strings.SplitN(k, ":", 2)[0]
					dir := "cache-rejects"
					if have.Accept && !want.Accept {
						dir = "cache-accepts"
					} else if have.Accept == want.Accept {
						dir = "tip-differs"
					}
					refName := k[strings.Index(k, ":")+1:]
					if ov := oracle.EvalRef(h, refName); !ov.Judged && strings.Contains(ov.Reason, "fix entry recorded by an unauthorized actor") {
						// the fix entry is never verified when met during recovery but is when a
						// later run starts at it: statement ambiguity (see C07), not judged here
						c.NotJudged("ref whose recovery fix was recorded by an unauthorized actor")
						continue
					}
					prior := "no"
					for _, st := range cfg.Steps {
						if strings.HasSuffix(st, ":latest:"+refName) {
							prior = "yes"
						}
					}
					attrs := map[string]string{"mode": mode, "direction": dir, "index": c08IndexClass(h, cfg), "prior_latest_only_of_same_ref": prior}
					if attrs["index"] == "stale-after-populate" {
						// one root cause whatever the mode/direction: the index misses policy or
						// attestation entries recorded after the cache was populated
						attrs = map[string]string{"index": "stale-after-populate"}
					}
					if sig := fmt.Sprint(attrs); !c08GitSeen[sig] {
						c08GitSeen[sig] = true
						c08NeedsGit = true
					}
					c.Violation("verdict-depends-on-cache", attrs,
						fmt.Sprintf("%s: without cache %+v, with configuration %+v: %+v", k, want, cfg, have), cs)
				}
			}
			for k, v := range got {
				if strings.HasPrefix(k, "repeat:") {
					refName := k[strings.LastIndex(k, ":refs/")+1:]
					if ov := oracle.EvalRef(h, refName); !ov.Judged && strings.Contains(ov.Reason, "fix entry recorded by an unauthorized actor") {
						c.NotJudged("ref whose recovery fix was recorded by an unauthorized actor")
						continue
					}
					c.Violation("verdict-changes-on-repetition", map[string]string{"index": c08IndexClass(h, cfg)}, fmt.Sprintf("%s: second identical verification gave %+v", k, v), cs)
				}
			}
			c.Count("configurations_agree", 1)
		})
		if c08NeedsGit {
			c08NeedsGit = false
			c08OnGit(c, h, cfg)
		}
	}
	c.Sample(map[string]any{"events": describeHistory(h), "config": cfgs[0], "reference": fmt.Sprint(ref)})
}

// c08IndexClass says whether the persistent cache's policy/attestation index
// can be complete: "none" (no persistent cache), "complete" (no policy or
// attestation entry was recorded after it was populated) or
// "stale-after-populate".
func c08IndexClass(h *scen.History, cfg c08Config) string {
	if cfg.PopulateAt < 0 {
		return "none"
	}
	for i := cfg.PopulateAt; i < len(h.Events); i++ {
		switch h.Events[i].Kind {
		case "policy", "rawpolicy", "approve":
			return "stale-after-populate"
		}
	}
	return "complete"
}

var (
	c08NeedsGit  bool
	c08GitBudget = 1
	c08GitSeen   = map[string]bool{}
)

// c08OnGit re-runs a violating configuration (and the cache-less reference) on
// real git; the memstore observation only stands if real git shows a
// difference too.
func c08OnGit(c *fw.Ctx, h *scen.History, cfg c08Config) {
	if c08GitBudget <= 0 || (c.Quick() && c.Shard%4 != 0) {
		return
	}
	c08GitBudget--
	g1, clean1, err := newScratchGit(c, "c08ref")
	if err != nil {
		c.Inconclusive("git init")
		return
	}
	defer clean1()
	g2, clean2, err := newScratchGit(c, "c08cfg")
	if err != nil {
		c.Inconclusive("git init")
		return
	}
	defer clean2()
	ref, _, err1 := c08RunOn(g1, h, c08Config{PopulateAt: -1})
	got, _, err2 := c08RunOn(g2, h, cfg)
	if err1 != nil || err2 != nil {
		c.Inconclusive("real-git replay failed to build")
		c.Note("last_git_replay_error", fmt.Sprint(err1, err2))
		return
	}
	differs := false
	for k, v := range ref {
		if got[k].Accept != v.Accept || got[k].Tip != v.Tip {
			differs = true
		}
	}
	c.Count("violations_replayed_on_real_git", 1)
	if differs {
		c.Count("violations_confirmed_on_real_git", 1)
	} else {
		c.Inconclusive("backend-mismatch: memstore shows a cache-dependent verdict, real git does not")
		c.Note("last_backend_mismatch", map[string]any{"events": describeHistory(h), "config": cfg})
	}
}

func c08StepModes(cfg c08Config) string {
	m := map[string]bool{}
	for _, s := range cfg.Steps {
		m[strings.SplitN(s, ":", 3)[1]] = true
	}
	ks := []string{}
	for k := range m {
		ks = append(ks, k)
	}
	sort.Strings(ks)
	if len(ks) == 0 {
		return "none"
	}
	return strings.Join(ks, "+")
}

// raceC08: several refs verified concurrently on one store (own PolicyVerifier
// each, shared process-wide RSL cache) under the race detector; verdicts must
// equal the sequential ones.
func raceC08(c *fw.Ctx) {
	n := c.Pick(40, 200) / c.NShards
	r := c.Rand(uint64(880 + c.Shard))
	for i := 0; i < n; i++ {
		h := genHistory(r, histOpts{Len: 6 + r.IntN(10)})
		rsl.VerifResetCache()
		b := scen.NewMem()
		built, _ := h.Build(b)
		bad := false
		for _, e := range built.Errors {
			if e != "" {
				bad = true
			}
		}
		if bad {
			continue
		}
		if r.IntN(2) == 0 {
			_ = cache.PopulatePersistentCache(b)
		}
		seq := map[string]bool{}
		for _, ref := range histRefs {
			_, err := policy.NewPolicyVerifier(b.CloneMem()).VerifyRefFull(scen.Ctx, ref)
			seq[ref] = err == nil
		}
		rsl.VerifResetCache()
		var wg sync.WaitGroup
		var mu sync.Mutex
		par := map[string]bool{}
		for _, ref := range histRefs {
			wg.Add(1)
			ref := ref
			store := b.CloneMem()
			go func() {
				defer wg.Done()
				_, err := policy.NewPolicyVerifier(store).VerifyRefFull(scen.Ctx, ref)
				mu.Lock()
				par[ref] = err == nil
				mu.Unlock()
			}()
		}
		wg.Wait()
		c.Eval(1)
		c.Nontrivial(fw.Hash(h, "race"))
		for _, ref := range histRefs {
			if seq[ref] != par[ref] {
				c.Violation("verdict-depends-on-schedule", nil, fmt.Sprintf("%s: sequential accept=%v, concurrent accept=%v", ref, seq[ref], par[ref]), c08Case{History: h, Events: describeHistory(h)})
			}
		}
		c.Count("race_histories", 1)
	}
}

func replayC08(c *fw.Ctx, raw json.RawMessage) error {
	var cs c08Case
	if err := json.Unmarshal(raw, &cs); err != nil {
		return err
	}
	if cs.History == nil {
		var w struct {
			Case c08Case `json:"case"`
		}
		if err := json.Unmarshal(raw, &w); err != nil || w.Case.History == nil {
			return fmt.Errorf("no history in replay file")
		}
		cs = w.Case
	}
	for _, l := range describeHistory(cs.History) {
		fmt.Println("  ", l)
	}
	fmt.Printf("configuration: %+v\n", cs.Config)
	if len(cs.Config.Steps) == 1 && strings.HasPrefix(cs.Config.Steps[0], "tampered-log-repetition:") {
		gap := 2
		fmt.Sscanf(cs.Config.Steps[0], "tampered-log-repetition:%d", &gap)
		c08TamperedOne(c, cs.History, gap)
		return nil
	}
	c08Judge(c, cs.History, []c08Config{cs.Config})
	return nil
}
