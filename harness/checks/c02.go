package checks

import (
	"encoding/json"
	"errors"
	"fmt"
	"math/rand/v2"
	"strings"

	"github.com/gittuf/gittuf/internal/policy"
	"github.com/gittuf/gittuf/internal/verifharness/fw"
	"github.com/gittuf/gittuf/internal/verifharness/scen"
	"github.com/gittuf/gittuf/pkg/githash"
	"github.com/gittuf/gittuf/pkg/rsl"
)

// C02 — policy takes effect only via an unbroken, rollback-free chain of trust.
//
// Chains of policy states published with raw ref/entry writes (as an attacker
// with push access would). Each successor is a valid evolution or carries one
// labelled defect. Pushes to main by a key that every state authorizes are
// placed after every policy entry, so the only reason a verification may fail
// is the chain. Oracle: per verification mode, the set of policy entries the
// mode depends on (starting policy with its chain of roots back to the first;
// every policy entry inside the verified range); fail iff that set contains a
// defect the dependency covers.

func init() {
	fw.Register(&fw.Check{
		ID:    "C02",
		Level: "exploration",
		Rule: "policy chains of 2-5 states: root/primary/delegated files with 1-2 principals and thresholds 1-2; each successor is a valid evolution (root rotation signed by old and new keys, version bumps, added delegated file) or carries one labelled defect {root signed only by new keys | by too few old keys | by a non-root key; primary rule file signed by a key the root does not name | by too few; delegated file signed by a non-delegate; dangling delegated file; root / primary / delegated version lowered; delegated file removed; primary file removed}; a push to main after every policy entry; verified with LoadState on every policy entry, LoadCurrentState, VerifyRefFull, VerifyRef, VerifyRefFromEntry from every push, VerifyMergeable. " +
			"Quick: all single-defect chains of length <= 3 x defect position x base shape (exhaustive); thorough: length <= 5, up to two defects, sampled. distinct = hash(chain, mode, start); non-trivial = the chain contains a defect or a root rotation",
		Assumptions: []string{
			"'depends on': the policy in force at the first verified entry and the chain of roots leading to it (root signatures and rollback checks of every earlier state), plus every policy entry inside the verified range (all conditions)",
			"rule-file defects of a state that was superseded before the first verified entry are not required to be detected",
		},
		MinNontrivial: 300,
		Exhaustive: func(tier string) (bool, string) {
			return true, "all chains of length <= 3 with at most one defect (12 defect kinds x every position) over 2 base shapes, all modes and starting points"
		},
		Run:    runC02,
		Replay: replayC02,
	})
}

type c02State struct {
	RootKeys   []string `json:"root_keys"`
	RootThr    int      `json:"root_thr"`
	RootSigned []string `json:"root_signed"`
	RootVer    uint64   `json:"root_ver"`
	TgtKeys    []string `json:"tgt_keys"`
	TgtThr     int      `json:"tgt_thr"`
	TgtSigned  []string `json:"tgt_signed"`
	TgtVer     uint64   `json:"tgt_ver"`
	NoTargets  bool     `json:"no_targets,omitempty"`
	Deleg      bool     `json:"deleg"`        // delegated file "protect-rel" present
	DelegRule  bool     `json:"deleg_rule"`   // the rule delegating to it present
	DelegSig   []string `json:"deleg_signed"` // delegating rule trusts k2 (threshold 1)
	DelegVer   uint64   `json:"deleg_ver"`
	Defect     string   `json:"defect,omitempty"`
}

type c02Case struct {
	Chain []c02State `json:"chain"`
	Mode  string     `json:"mode,omitempty"`
	Start int        `json:"start,omitempty"`
}

func rootPrincipals(ks []string) []scen.Principal {
	out := []scen.Principal{}
	for _, k := range ks {
		out = append(out, scen.Principal{ID: "R-" + k, Keys: []string{k}})
	}
	return out
}

func (s c02State) policy() scen.Policy {
	p := scen.Policy{
		RootPrincipals: rootPrincipals(s.RootKeys), RootThreshold: s.RootThr, RootSigners: s.RootSigned, RootVersion: s.RootVer,
		TargetsPrincipals: rootPrincipals(s.TgtKeys), TargetsThreshold: s.TgtThr,
	}
	if !s.NoTargets {
		tf := scen.RuleFile{Name: "targets", Principals: []scen.Principal{keyPrincipal("k1"), {ID: "deleg-person", Keys: []string{"k2"}, Person: true}}, Signers: s.TgtSigned, Version: s.TgtVer,
			Rules: []scen.Rule{{Name: "protect-main", Patterns: []string{"git:" + refMain}, Principals: []string{"P1"}, Threshold: 1}}}
		if s.DelegRule {
			tf.Rules = append(tf.Rules, scen.Rule{Name: "protect-rel", Patterns: []string{"git:refs/heads/rel/*"}, Principals: []string{"deleg-person"}, Threshold: 1})
		}
		p.Files = append(p.Files, tf)
	}
	if s.Deleg {
		dprs := []scen.Principal{keyPrincipal("k3")}
		if s.Defect == "deleg-redefines-its-delegate" {
			// the delegated file re-declares the person its delegator trusts, with the forger's key
			dprs = append(dprs, scen.Principal{ID: "deleg-person", Keys: []string{"kx"}, Person: true})
		}
		p.Files = append(p.Files, scen.RuleFile{Name: "protect-rel", Principals: dprs, Signers: s.DelegSig, Version: s.DelegVer,
			Rules: []scen.Rule{{Name: "rel-inner", Patterns: []string{"git:refs/heads/rel/*"}, Principals: []string{"P3"}, Threshold: 1}}})
	}
	return p
}

func c02Base(shape int) c02State {
	if shape == 0 {
		return c02State{RootKeys: []string{"r1"}, RootThr: 1, RootSigned: []string{"r1"}, RootVer: 2, TgtKeys: []string{"t1"}, TgtThr: 1, TgtSigned: []string{"t1"}, TgtVer: 2, Deleg: true, DelegRule: true, DelegSig: []string{"k2"}, DelegVer: 2}
	}
	return c02State{RootKeys: []string{"r1", "r2"}, RootThr: 2, RootSigned: []string{"r1", "r2"}, RootVer: 2, TgtKeys: []string{"t1", "t2"}, TgtThr: 2, TgtSigned: []string{"t1", "t2"}, TgtVer: 2, Deleg: true, DelegRule: true, DelegSig: []string{"k2"}, DelegVer: 2}
}

var c02Evolutions = []string{"same", "bump-versions", "rotate-root", "resign"}
var c02Defects = []string{"deleg-redefines-its-delegate", "root-new-keys-only", "root-too-few-old", "root-non-root-key", "targets-wrong-key", "targets-too-few", "deleg-wrong-key", "dangling-deleg", "root-version-lowered", "targets-version-lowered", "deleg-version-lowered", "deleg-removed", "targets-removed"}

// next derives the successor of prev: a valid evolution, then optionally a defect.
func c02Next(prev c02State, evolution, defect string) (c02State, bool) {
	n := prev
	n.Defect = ""
	n.RootKeys = append([]string{}, prev.RootKeys...)
	n.RootSigned = append([]string{}, prev.RootSigned...)
	n.TgtSigned = append([]string{}, prev.TgtSigned...)
	switch evolution {
	case "bump-versions":
		n.RootVer++
		n.TgtVer++
		n.DelegVer++
	case "rotate-root":
		// new root set; signed by the old threshold and by the new keys
		newKeys := []string{"r3"}
		if len(prev.RootKeys) == 2 {
			newKeys = []string{"r3", "r4"}
		}
		if prev.RootKeys[0] == "r3" {
			newKeys = []string{"r1"}
			if len(prev.RootKeys) == 2 {
				newKeys = []string{"r1", "r2"}
			}
		}
		n.RootSigned = append(append([]string{}, prev.RootKeys...), newKeys...)
		n.RootKeys = newKeys
		n.RootVer++
	case "resign":
		n.RootVer++
	}
	switch defect {
	case "":
	case "root-new-keys-only":
		newKeys := []string{"r5"}
		if len(prev.RootKeys) == 2 {
			newKeys = []string{"r5", "r6"}
		}
		n.RootKeys = newKeys
		n.RootSigned = newKeys
	case "root-too-few-old":
		if prev.RootThr < 2 {
			return n, false
		}
		newKeys := []string{"r5", "r6"}
		n.RootKeys = newKeys
		n.RootSigned = append([]string{prev.RootKeys[0]}, newKeys...)
	case "root-non-root-key":
		n.RootSigned = []string{"t1", "kx"}
	case "targets-wrong-key":
		n.TgtSigned = []string{"kx"}
	case "targets-too-few":
		if prev.TgtThr < 2 {
			return n, false
		}
		n.TgtSigned = []string{"t1"}
	case "deleg-wrong-key", "deleg-redefines-its-delegate":
		n.DelegSig = []string{"kx"}
	case "dangling-deleg":
		n.DelegRule = false
	case "root-version-lowered":
		n.RootVer = prev.RootVer - 1
	case "targets-version-lowered":
		n.TgtVer = prev.TgtVer - 1
	case "deleg-version-lowered":
		n.DelegVer = prev.DelegVer - 1
	case "deleg-removed":
		n.Deleg = false
		n.DelegRule = false
	case "targets-removed":
		n.NoTargets = true
		n.Deleg = false
		n.DelegRule = false
	}
	n.Defect = defect
	return n, true
}

// defect classes: "chain" defects break the chain of roots / rollback
// protection between consecutive states and are visible to every verification
// that starts at or after them; "state" defects make the state itself invalid
// and are visible to verifications whose starting policy or range includes it.
func c02ChainDefect(d string) bool {
	switch d {
	case "root-new-keys-only", "root-too-few-old", "root-non-root-key", "root-version-lowered", "targets-version-lowered", "deleg-version-lowered", "deleg-removed", "targets-removed":
		return true
	}
	return false
}

type c02Built struct {
	b       *scen.Mem
	polEnt  []githash.Hash // RSL entry of each policy state
	pushEnt []githash.Hash // push entry after state i
	builtOK bool
	errs    []string
}

func c02Build(chain []c02State) *c02Built {
	rsl.VerifResetCache()
	b := scen.NewMem()
	out := &c02Built{b: b, builtOK: true}
	var tip githash.Hash
	for i, st := range chain {
		if _, err := scen.RawPolicyEntry(b, st.policy(), "r1"); err != nil {
			out.builtOK = false
			out.errs = append(out.errs, fmt.Sprintf("state %d: %v", i, err))
			return out
		}
		id, _ := b.GetReference(rsl.Ref)
		out.polEnt = append(out.polEnt, id)
		var parents []githash.Hash
		if tip != nil {
			parents = []githash.Hash{tip}
		}
		c, err := b.CommitFiles(map[string]string{"f": fmt.Sprint(i)}, parents, fmt.Sprintf("push %d", i), nil)
		if err != nil {
			out.builtOK = false
			return out
		}
		tip = c
		_ = b.SetRef(refMain, c)
		eid, err := scen.RecordEntry(b, refMain, c, "k1")
		if err != nil {
			out.builtOK = false
			out.errs = append(out.errs, err.Error())
			return out
		}
		out.pushEnt = append(out.pushEnt, eid)
	}
	b.SetSigner(nil)
	return out
}

// c02Expect: must the verification fail? s = index of the starting policy,
// e = index of the last policy the verification covers.
func c02Expect(chain []c02State, s, e int) (fail bool, why string) {
	for j := 1; j <= e && j < len(chain); j++ {
		d := chain[j].Defect
		if d == "" {
			continue
		}
		if c02ChainDefect(d) {
			return true, fmt.Sprintf("state %d: %s", j, d)
		}
		if j >= s {
			return true, fmt.Sprintf("state %d: %s", j, d)
		}
	}
	return false, ""
}

func c02Judge(c *fw.Ctx, chain []c02State) {
	bt := c02Build(chain)
	if !bt.builtOK {
		c.Eval(1)
		c.Inconclusive("builder")
		c.Note("last_builder_error", strings.Join(bt.errs, "; "))
		return
	}
	interesting := false
	for i, st := range chain {
		if st.Defect != "" || (i > 0 && strings.Join(st.RootKeys, ",") != strings.Join(chain[i-1].RootKeys, ",")) {
			interesting = true
		}
	}
	n := len(chain)
	check := func(mode string, start int, s, e int, run func() error) {
		c.Eval(1)
		cs := c02Case{Chain: chain, Mode: mode, Start: start}
		if interesting {
			c.Nontrivial(fw.Hash(chain, mode, start))
		}
		c.Guard(cs, func() {
			rsl.VerifResetCache()
			err := run()
			wantFail, why := c02Expect(chain, s, e)
			switch {
			case wantFail && err == nil:
				// which defect, which mode
				d := strings.SplitN(why, ": ", 2)[1]
				pos := "starting-policy"
				for j := 1; j <= e && j < n; j++ {
					if chain[j].Defect != "" && j > s {
						pos = "in-range"
					} else if chain[j].Defect != "" && j < s {
						pos = "before-start"
					}
				}
				c.Violation("broken-chain-accepted", map[string]string{"defect": d, "mode": mode, "position": pos}, fmt.Sprintf("%s (start %d) succeeded although it depends on %s", mode, start, why), cs)
			case !wantFail && err != nil:
				c.Violation("valid-chain-rejected", map[string]string{"mode": mode, "error": trunc(err.Error(), 50)}, fmt.Sprintf("%s (start %d) failed on a chain whose depended-on states are all valid evolutions: %v", mode, start, err), cs)
			default:
				c.Count("agree:"+mode, 1)
			}
		})
	}
	// LoadState on every policy entry
	for k := 0; k < n; k++ {
		k := k
		check("LoadState", k, k, k, func() error {
			ent, err := rsl.GetEntry(bt.b, bt.polEnt[k])
			if err != nil {
				return err
			}
			_, err = policy.LoadState(scen.Ctx, bt.b, ent.(rsl.ReferenceUpdaterEntry))
			return err
		})
	}
	check("LoadCurrentState", n-1, n-1, n-1, func() error {
		_, err := policy.LoadCurrentState(scen.Ctx, bt.b, policy.PolicyRef)
		return err
	})
	check("VerifyRefFull", 0, 0, n-1, func() error {
		_, err := policy.NewPolicyVerifier(bt.b).VerifyRefFull(scen.Ctx, refMain)
		return err
	})
	check("VerifyRef", n-1, n-1, n-1, func() error {
		_, err := policy.NewPolicyVerifier(bt.b).VerifyRef(scen.Ctx, refMain)
		return err
	})
	for k := 0; k < n; k++ {
		k := k
		check("VerifyRefFromEntry", k, k, n-1, func() error {
			_, err := policy.NewPolicyVerifier(bt.b).VerifyRefFromEntry(scen.Ctx, refMain, bt.pushEnt[k])
			return err
		})
	}
	check("VerifyMergeable", n-1, n-1, n-1, func() error {
		// a feature ref at the same commit as main's tip: mergeability only loads the latest policy
		tip, _ := bt.b.GetReference(refMain)
		_ = bt.b.SetRef("refs/heads/feature", tip)
		if _, err := scen.RecordEntry(bt.b, "refs/heads/feature", tip, "k1"); err != nil {
			return nil
		}
		_, err := policy.NewPolicyVerifier(bt.b).VerifyMergeable(scen.Ctx, refMain, "refs/heads/feature")
		if err != nil && errors.Is(err, policy.ErrVerificationFailed) {
			// (inside verifyMergeable only the approval / file-policy steps, which run after
			// the policy was loaded and chain-verified, report ErrVerificationFailed)
			// the policy chain loaded; the prediction itself (no approvals recorded) is not C02's subject
			return nil
		}
		return err
	})
}

func runC02(c *fw.Ctx) {
	idx := 0
	for shape := 0; shape < 2; shape++ {
		base := c02Base(shape)
		// length 2 and 3, at most one defect
		for _, ev1 := range c02Evolutions {
			for d1 := -1; d1 < len(c02Defects); d1++ {
				def1 := ""
				if d1 >= 0 {
					def1 = c02Defects[d1]
				}
				s1, ok := c02Next(base, ev1, def1)
				if !ok {
					continue
				}
				if c.Mine(idx) {
					c02Judge(c, []c02State{base, s1})
				}
				idx++
				for _, ev2 := range c02Evolutions {
					for d2 := -1; d2 < len(c02Defects); d2++ {
						if d1 >= 0 && d2 >= 0 {
							continue
						}
						def2 := ""
						if d2 >= 0 {
							def2 = c02Defects[d2]
						}
						// a state following a defective one evolves from it as if it were fine
						s2, ok := c02Next(c02Repair(s1, base), ev2, def2)
						if !ok {
							continue
						}
						if !c02Consistent(s1, s2) {
							continue
						}
						if c.Mine(idx) {
							c02Judge(c, []c02State{base, s1, s2})
						}
						idx++
					}
				}
			}
		}
	}
	if c.Thorough() {
		r := c.Rand(uint64(200 + c.Shard))
		for i := 0; i < 100000/c.NShards; i++ {
			c02Judge(c, c02RandomChain(r))
		}
	} else {
		r := c.Rand(uint64(200 + c.Shard))
		for i := 0; i < 600/c.NShards; i++ {
			c02Judge(c, c02RandomChain(r))
		}
	}
}

// c02Repair returns the shape a successor of a state with a *state* defect
// evolves from: the defective signature / rule fields are those of the last good
// state, everything else (roots, versions) continues from the defective state.
func c02Repair(defective, good c02State) c02State {
	if defective.Defect == "" || c02ChainDefect(defective.Defect) {
		return defective
	}
	r := defective
	r.TgtSigned = append([]string{}, good.TgtSigned...)
	r.DelegSig = append([]string{}, good.DelegSig...)
	r.DelegRule = good.DelegRule
	r.Deleg = good.Deleg
	r.Defect = ""
	return r
}

// c02Consistent filters successor states that would add a *second*, unlabelled
// defect relative to a defective predecessor (e.g. a file that reappears).
func c02Consistent(prev, next c02State) bool {
	if prev.Defect == "" {
		return true
	}
	// after a defective state the follow-up state is only used to probe whether later
	// verifications still notice the defect; keep it a plain "same"/"bump" evolution of it
	return next.Defect == ""
}

func c02RandomChain(r *rand.Rand) []c02State {
	n := 3 + r.IntN(3)
	chain := []c02State{c02Base(r.IntN(2))}
	defects := 0
	for tries := 0; len(chain) < n && tries < 400; tries++ {
		prev := chain[len(chain)-1]
		if len(chain) >= 2 {
			prev = c02Repair(prev, chain[len(chain)-2])
		}
		def := ""
		if defects < 2 && r.IntN(4) == 0 {
			def = c02Defects[r.IntN(len(c02Defects))]
		}
		if chain[len(chain)-1].Defect != "" {
			def = ""
		}
		nx, ok := c02Next(prev, c02Evolutions[r.IntN(len(c02Evolutions))], def)
		if !ok {
			continue
		}
		if def != "" {
			defects++
		}
		chain = append(chain, nx)
	}
	return chain
}

func replayC02(c *fw.Ctx, raw json.RawMessage) error {
	var cs c02Case
	if err := json.Unmarshal(raw, &cs); err != nil {
		return err
	}
	if len(cs.Chain) == 0 {
		var w struct {
			Case c02Case `json:"case"`
		}
		if err := json.Unmarshal(raw, &w); err == nil {
			cs = w.Case
		}
	}
	for i, st := range cs.Chain {
		fmt.Printf("  state %d: %+v\n", i, st)
	}
	c02Judge(c, cs.Chain)
	return nil
}
