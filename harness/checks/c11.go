package checks

import (
	"encoding/json"
	"fmt"
	"math/rand/v2"
	"strings"

	"github.com/gittuf/gittuf/internal/policy"
	"github.com/gittuf/gittuf/internal/verifharness/fw"
	"github.com/gittuf/gittuf/internal/verifharness/oracle"
	"github.com/gittuf/gittuf/internal/verifharness/scen"
	"github.com/gittuf/gittuf/pkg/rsl"
)

// C11 — global rules add constraints; they never replace or weaken delegation rules.
//
// For one event sequence two repositories are built: P (delegation rules only)
// and P+G (the same rules plus a set of global rules in every policy state).
//  (i)   monotonicity (model-free): accept(P+G) => accept(P), per ref;
//  (ii)  direct: an entry on a ref matched by a threshold rule k that carries
//        fewer than k distinct authenticated principals => reject(P+G), also
//        when no delegation rule protects the ref; an entry matched by a
//        block-force-push rule that does not descend from the previous
//        unskipped state => reject(P+G);
//  (iii) the check is live: accept(P), every matching threshold rule met by the
//        principals credited for the satisfied delegation rule, no force push
//        => accept(P+G).

func init() {
	fw.Register(&fw.Check{
		ID:    "C11",
		Level: "exploration",
		Rule: "(P, G, history) triples: histories from the C01 generator (with force pushes) x global-rule sets (threshold k in 1..3 and block-force-push over patterns matching main / rel/* / scratch / nothing). Both P and P+G are built and every ref verified in full. " +
			"distinct = hash(history, G, ref); non-trivial = the ref has an entry that a global rule of G matches, or the verdicts of P and P+G differ",
		Assumptions: []string{
			"global rules declared in the repository's own root only (controller roots need network clones inside State.Verify)",
			"'authenticated principal' = a principal defined anywhere in the policy whose key signed the entry or an approval of exactly this change",
			"same memstore fidelity argument as C01",
		},
		MinNontrivial: 300,
		Run:           runC11,
		Replay:        replayC11,
	})
}

type c11Case struct {
	History *scen.History     `json:"history"` // the P+G history (P is the same with globals removed)
	Globals []scen.GlobalRule `json:"globals"`
	Ref     string            `json:"ref"`
	Events  []string          `json:"events,omitempty"`
}

func c11Globals(r *rand.Rand) []scen.GlobalRule {
	pats := [][]string{{"git:" + refMain}, {"git:refs/heads/rel/*"}, {"git:" + refScratch}, {"git:refs/heads/*"}, {"git:refs/heads/none"}, {"git:" + refMain, "git:" + refScratch}}
	n := 1 + r.IntN(2)
	out := []scen.GlobalRule{}
	for i := 0; i < n; i++ {
		p := pats[r.IntN(len(pats))]
		if r.IntN(3) == 0 {
			out = append(out, scen.GlobalRule{Kind: "block-force-push", Name: fmt.Sprintf("bfp-%d", i), Patterns: p})
		} else {
			out = append(out, scen.GlobalRule{Kind: "threshold", Name: fmt.Sprintf("thr-%d", i), Patterns: p, Threshold: 1 + r.IntN(3)})
		}
	}
	// a third of the rule sets have rules declared by a controller's root
	// (alone, or next to the repository's own global rules)
	if r.IntN(3) == 0 {
		out[r.IntN(len(out))].Controller = true
		if len(out) > 1 && r.IntN(2) == 0 {
			out[0].Controller, out[1].Controller = true, true
		}
	}
	return out
}

func withGlobals(h *scen.History, g []scen.GlobalRule) *scen.History {
	out := &scen.History{Events: make([]scen.Event, len(h.Events))}
	copy(out.Events, h.Events)
	for i := range out.Events {
		if out.Events[i].Policy != nil {
			p := out.Events[i].Policy.Clone()
			p.Globals = g
			out.Events[i].Policy = &p
		}
	}
	return out
}

func globalMatches(g scen.GlobalRule, ref string) bool {
	for _, p := range g.Patterns {
		if oracle.Match(p, "git:"+ref) {
			return true
		}
	}
	return false
}

// authenticated counts distinct principals, defined anywhere in the policy in
// force, whose key signed the entry or an approval of exactly this change.
func authenticated(p scen.Policy, signer string, approvers []string) int {
	idx := p.PrincipalIndex()
	n := 0
	for _, pr := range idx {
		hit := false
		for _, k := range pr.Keys {
			if k == signer && signer != "" {
				hit = true
			}
			for _, a := range approvers {
				if a == k {
					hit = true
				}
			}
		}
		if hit {
			n++
		}
	}
	return n
}

// c11UnverifiedFix recognises one mechanism from the scenario alone: a
// block-force-push rule matches ref, a force push to ref is revoked, and a later
// unrevoked entry that the delegation rules do not authorize restores the content
// of the last unrevoked push before the force push. With the global rule the
// force push is a violation, recovery takes the later entry as its fix, and the
// fix entry's own authorization is not verified; without the rule the force push
// is an ordinary entry and the later entry is verified (and rejected).
func c11UnverifiedFix(h *scen.History, g []scen.GlobalRule, ref string) bool {
	bfp := false
	for _, gr := range g {
		if gr.Kind == "block-force-push" && globalMatches(gr, ref) {
			bfp = true
		}
	}
	if !bfp {
		return false
	}
	es := oracle.RefEntries(h, ref)
	for i, e := range es {
		if e.Kind != "push" || !e.Skipped || !h.Events[e.Event].Force {
			continue
		}
		lastGood := ""
		found := false
		for j := i - 1; j >= 0; j-- {
			if es[j].Kind == "push" && !es[j].Skipped {
				lastGood, found = es[j].Content, true
				break
			}
		}
		if !found {
			continue
		}
		for j := i + 1; j < len(es); j++ {
			if es[j].Kind == "push" && !es[j].Skipped && !es[j].Valid && es[j].Content == lastGood {
				return true
			}
		}
	}
	return false
}

func runC11(c *fw.Ctx) {
	n := c.Pick(2400, 60000) / c.NShards
	gitBudget := c.Pick(2, 30)
	r := c.Rand(uint64(1100 + c.Shard))
	for i := 0; i < n; i++ {
		h := genHistory(r, histOpts{Len: 4 + r.IntN(14), ForcePushes: true})
		g := c11Globals(r)
		c11Judge(c, h, g, &gitBudget, i%250 == 0)
	}
}

type c11Obs struct {
	err error
}

func c11Judge(c *fw.Ctx, h *scen.History, g []scen.GlobalRule, gitBudget *int, fidelity bool) {
	rsl.VerifResetCache()
	hg := withGlobals(h, g)
	nc := 0
	for _, gr := range g {
		if gr.Controller {
			nc++
		}
	}
	switch {
	case nc == 0:
		c.Count("rules_declared_by:own_root_only", 1)
	case nc == len(g):
		c.Count("rules_declared_by:controller_only", 1)
	default:
		c.Count("rules_declared_by:own_root_and_controller", 1)
	}
	bP, bG := scen.NewMem(), scen.NewMem()
	builtP, _ := h.Build(bP)
	builtG, _ := hg.Build(bG)
	for _, e := range append(append([]string{}, builtP.Errors...), builtG.Errors...) {
		if e != "" {
			c.Eval(1)
			c.Inconclusive("builder")
			c.Note("last_builder_error", e)
			return
		}
	}
	anyViolation := false
	obs := map[string][2]string{}
	for _, ref := range histRefs {
		v := oracle.EvalRef(h, ref)
		if len(v.Entries) == 0 {
			continue
		}
		c.Eval(1)
		cs := c11Case{History: hg, Globals: g, Ref: ref, Events: describeHistory(hg)}
		c.Guard(cs, func() {
			_, errP := policy.NewPolicyVerifier(bP).VerifyRefFull(scen.Ctx, ref)
			_, errG := policy.NewPolicyVerifier(bG).VerifyRefFull(scen.Ctx, ref)
			obs[ref] = [2]string{errClass(errP), errClass(errG)}
			matched := false
			for _, gr := range g {
				if globalMatches(gr, ref) {
					matched = true
				}
			}
			if matched || (errP == nil) != (errG == nil) {
				c.Nontrivial(fw.Hash(hg, ref))
			}
			// (i) monotonicity
			if errG == nil && errP != nil {
				anyViolation = true
				attrs := map[string]string{"global_matches_ref": fmt.Sprint(matched)}
				if c11UnverifiedFix(hg, g, ref) {
					attrs["mechanism"] = "revoked-force-push-makes-a-later-unauthorized-entry-the-unverified-fix"
				}
				c.Violation("global-rule-weakens", attrs,
					fmt.Sprintf("%s verifies with global rules %v declared but is rejected (%v) by the delegation rules alone", ref, g, errP), cs)
				return
			}
			c.Count("monotone", 1)
			if !v.Judged {
				c.NotJudged(v.Reason)
				return
			}
			// (ii) direct, evaluated on the last unrevoked entry chain: find the first
			// entry that fails a matching global rule although delegation accepts it
			expectRejectG := ""
			prevUnskipped := -1
			var polAt = policyAt(hg)
			for idx, e := range v.Entries {
				if e.Kind != "push" {
					prevUnskipped = -1 // not judged beyond
					break
				}
				if !e.Skipped {
					pol := polAt[e.Event]
					if pol != nil && e.Valid {
						for _, gr := range pol.Globals {
							if !globalMatches(gr, ref) {
								continue
							}
							switch gr.Kind {
							case "threshold":
								if authenticated(*pol, e.Signer, e.Approvers) < gr.Threshold {
									expectRejectG = fmt.Sprintf("event %d carries %d authenticated principal(s), global rule %s requires %d", e.Event, authenticated(*pol, e.Signer, e.Approvers), gr.Name, gr.Threshold)
								}
							case "block-force-push":
								if hg.Events[e.Event].Force && prevUnskipped >= 0 {
									expectRejectG = fmt.Sprintf("event %d is a force push over the previous unskipped state, global rule %s blocks it", e.Event, gr.Name)
								}
							}
						}
					}
					if expectRejectG != "" {
						break
					}
					prevUnskipped = idx
				}
			}
			hasSkips := false
			for _, e := range v.Entries {
				if e.Skipped {
					hasSkips = true
				}
			}
			if expectRejectG != "" && v.Accept && !hasSkips {
				if errG == nil {
					anyViolation = true
					kind := "global-threshold-not-enforced"
					if strings.Contains(expectRejectG, "force push") {
						kind = "force-push-not-blocked"
					}
					c.Violation(kind, nil, fmt.Sprintf("%s accepted although %s", ref, expectRejectG), cs)
				} else {
					c.Count("direct:reject-agree", 1)
				}
				return
			}
			// (ii-b) latest-only mode, with revocations: the latest entry alone is verified;
			// a matching block-force-push rule requires it to descend from the previous
			// *unskipped* state of the ref. In the builder a push descends from every
			// earlier push back to the most recent force push.
			if last := v.Entries[len(v.Entries)-1]; last.Kind == "push" && !last.Skipped && last.Valid && last.HasPolicy {
				pol := polAt[last.Event]
				prev := -1
				for j := len(v.Entries) - 2; j >= 0; j-- {
					if v.Entries[j].Kind == "push" && !v.Entries[j].Skipped {
						prev = j
						break
					}
					if v.Entries[j].Kind != "push" {
						prev = -2 // a propagation entry is the previous state: not modelled
						break
					}
				}
				if pol != nil && prev >= 0 {
					forced := false
					for j := prev + 1; j < len(v.Entries); j++ {
						if hg.Events[v.Entries[j].Event].Force {
							forced = true
						}
					}
					bfp, thrFail, thrOK := false, false, true
					for _, gr := range pol.Globals {
						if !globalMatches(gr, ref) {
							continue
						}
						if gr.Kind == "block-force-push" {
							bfp = true
						}
						if gr.Kind == "threshold" {
							if authenticated(*pol, last.Signer, last.Approvers) < gr.Threshold {
								thrFail = true
							}
							if len(last.Credited) < gr.Threshold {
								thrOK = false
							}
						}
					}
					_, lerr := policy.NewPolicyVerifier(bG).VerifyRef(scen.Ctx, ref)
					switch {
					case bfp && forced && lerr == nil:
						anyViolation = true
						c.Violation("force-push-not-blocked", map[string]string{"mode": "latest-only"}, fmt.Sprintf("%s: latest entry (event %d) does not descend from the previous unskipped state (event %d) and a block-force-push rule matches, yet latest-only verification accepts", ref, last.Event, v.Entries[prev].Event), cs)
					case thrFail && lerr == nil:
						anyViolation = true
						c.Violation("global-threshold-not-enforced", map[string]string{"mode": "latest-only"}, fmt.Sprintf("%s: latest entry (event %d) carries too few authenticated principals for a matching global threshold rule, yet latest-only verification accepts", ref, last.Event), cs)
					case !forced && thrOK && !thrFail && lerr != nil:
						anyViolation = true
						c.Violation("global-rule-false-reject", map[string]string{"error": strings.SplitN(errClass(lerr), ":", 3)[1], "mode": "latest-only"}, fmt.Sprintf("%s: latest entry (event %d) is authorized, descends from the previous unskipped state and meets every matching global rule, yet latest-only verification fails: %v", ref, last.Event, lerr), cs)
					default:
						c.Count("latest-only:agree", 1)
					}
				}
			}
			// (iii) liveness: P accepts, no skips, every matching threshold met by the
			// principals credited for the satisfied delegation rule, no force push
			if v.Accept && errP == nil && !hasSkips && expectRejectG == "" {
				ok := true
				for _, e := range v.Entries {
					pol := polAt[e.Event]
					if pol == nil || hg.Events[e.Event].Force {
						ok = false
						break
					}
					for _, gr := range pol.Globals {
						if globalMatches(gr, ref) && gr.Kind == "threshold" && len(e.Credited) < gr.Threshold {
							ok = false
						}
					}
				}
				if ok {
					if errG != nil {
						anyViolation = true
						c.Violation("global-rule-false-reject", map[string]string{"error": strings.SplitN(errClass(errG), ":", 3)[1]}, fmt.Sprintf("%s: delegation rules accept and every matching global rule is met, yet verification fails: %v", ref, errG), cs)
					} else {
						c.Count("live:accept-agree", 1)
					}
				}
			}
		})
	}
	c.Sample(map[string]any{"events": describeHistory(hg), "observed_P_then_PG": obs})
	if (fidelity || anyViolation) && *gitBudget > 0 {
		*gitBudget--
		mem := map[string]string{}
		for ref, o := range obs {
			mem[ref] = o[1]
		}
		c01Fidelity(c, hg, mem)
	}
}

// policyAt returns, per event index, the policy in force immediately before it.
func policyAt(h *scen.History) []*scen.Policy {
	out := make([]*scen.Policy, len(h.Events))
	var cur *scen.Policy
	for i, e := range h.Events {
		out[i] = cur
		if e.Kind == "policy" || e.Kind == "rawpolicy" {
			cur = h.Events[i].Policy
		}
	}
	return out
}

func replayC11(c *fw.Ctx, raw json.RawMessage) error {
	var cs c11Case
	if err := json.Unmarshal(raw, &cs); err != nil {
		return err
	}
	if cs.History == nil {
		var w struct {
			Case c11Case `json:"case"`
		}
		if err := json.Unmarshal(raw, &w); err != nil || w.Case.History == nil {
			return fmt.Errorf("no history in replay file")
		}
		cs = w.Case
	}
	for _, l := range describeHistory(cs.History) {
		fmt.Println("  ", l)
	}
	budget := 1
	c11Judge(c, withGlobals(cs.History, nil), cs.Globals, &budget, true)
	return nil
}
