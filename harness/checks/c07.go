package checks

import (
	"encoding/json"
	"fmt"
	"math/rand/v2"

	"github.com/gittuf/gittuf/internal/verifharness/fw"
	"github.com/gittuf/gittuf/internal/verifharness/scen"
)

// C07 — a violation is tolerated only if revoked and repaired as recovery requires.
//
// Exhaustive over per-entry flag patterns: each entry on main is
// {signed by the authorized key | by an outsider} x {content a | b} x
// {not skipped | skipped by an annotation right after it | skipped by an
// annotation at the end of the log}; one global flag groups all end-of-log
// skips into a single annotation. Policy updates (de-authorizing the signer),
// attestation entries and entries for a second ref are interleaved at
// PRNG-chosen positions. Oracle: the recovery fold of the reference model
// (oracle.EvalRef / EvalRefFrom), accept-vs-reject only.

func init() {
	fw.Register(&fw.Check{
		ID:    "C07",
		Level: "exploration",
		Rule: "every flag pattern of length <= L over {authorized|outsider} x {content a|b} x {unskipped|skipped right after|skipped at end of log} x {end skips as separate annotations | one annotation covering all}; per pattern a PRNG-chosen interleaving of a de-authorizing policy update, an attestation entry and second-ref entries. " +
			"VerifyRefFull for every ref and VerifyRefFromEntry from every authorized unrevoked entry, judged accept/reject by the recovery fold. distinct = hash(history, ref[, start]); non-trivial = the history contains a violating entry",
		Assumptions: []string{
			"same memstore fidelity argument as C01 (violating histories and a seeded sample are rebuilt on real git)",
			"not judged: first state of the ref is the violation (the code's own TODO); fix recorded by an unauthorized actor",
		},
		MinNontrivial: 1000,
		Exhaustive: func(tier string) (bool, string) {
			if tier == "thorough" {
				return true, "all per-entry flag patterns of length <= 5 (12 combinations per entry x grouping flag)"
			}
			return true, "all per-entry flag patterns of length <= 4 (12 combinations per entry x grouping flag)"
		},
		Run:    runC07,
		Replay: replayC07,
	})
}

type c07Flag struct {
	Outsider bool
	B        bool // content b instead of a
	Skip     int  // 0 none, 1 right after, 2 at end
}

func c07Build(r *rand.Rand, flags []c07Flag, group bool) *scen.History {
	shape := polShape{Main: []string{"k1"}, MainThr: 1, Rel: []string{"k1"}, RelThr: 1}
	pol := shape.build()
	h := &scen.History{Events: []scen.Event{{Kind: "policy", Policy: &pol, Signer: "root"}}}
	// an initial good state so that "first entry is the violation" is the exception, not the rule
	h.Events = append(h.Events, scen.Event{Kind: "push", Ref: refMain, Signer: "k1", Content: "a"})
	interPolicy, interAttest, interRel := -1, -1, -1
	if r.IntN(3) == 0 {
		interPolicy = r.IntN(len(flags) + 1)
	}
	if r.IntN(3) == 0 {
		interAttest = r.IntN(len(flags) + 1)
	}
	if r.IntN(2) == 0 {
		interRel = r.IntN(len(flags) + 1)
	}
	signer := "k1"
	endSkips := []int{}
	for i, f := range flags {
		if i == interPolicy {
			swapped := polShape{Main: []string{"k2"}, MainThr: 1, Rel: []string{"k1"}, RelThr: 1}.build()
			h.Events = append(h.Events, scen.Event{Kind: "policy", Policy: &swapped, Signer: "root"})
			signer = "k2"
		}
		if i == interAttest {
			h.Events = append(h.Events, scen.Event{Kind: "approve", Ref: refRel, FromPush: -1, Content: "z", Approvers: []string{"k3"}, Signer: "k3"})
		}
		if i == interRel {
			h.Events = append(h.Events, scen.Event{Kind: "push", Ref: refRel, Signer: []string{"k1", "kx"}[r.IntN(2)], Content: "r"})
		}
		ev := scen.Event{Kind: "push", Ref: refMain, Signer: signer, Content: "a"}
		if f.Outsider {
			ev.Signer = "kx"
		}
		if f.B {
			ev.Content = "b"
		}
		h.Events = append(h.Events, ev)
		idx := len(h.Events) - 1
		switch f.Skip {
		case 1:
			h.Events = append(h.Events, scen.Event{Kind: "annotate", Targets: []int{idx}, Skip: true, Signer: "k1"})
		case 2:
			endSkips = append(endSkips, idx)
		}
	}
	if len(endSkips) > 0 {
		if group {
			h.Events = append(h.Events, scen.Event{Kind: "annotate", Targets: endSkips, Skip: true, Signer: "k1"})
		} else {
			for _, t := range endSkips {
				h.Events = append(h.Events, scen.Event{Kind: "annotate", Targets: []int{t}, Skip: true, Signer: "k1"})
			}
		}
	}
	return h
}

func runC07(c *fw.Ctx) {
	maxLen := c.Pick(4, 5)
	gitBudget := c.Pick(3, 40)
	idx := 0
	for L := 1; L <= maxLen; L++ {
		total := 1
		for i := 0; i < L; i++ {
			total *= 12
		}
		for code := 0; code < total; code++ {
			for g := 0; g < 2; g++ {
				mine := c.Mine(idx)
				idx++
				if !mine {
					continue
				}
				flags := make([]c07Flag, L)
				x := code
				anySkipEnd := 0
				for i := range flags {
					d := x % 12
					x /= 12
					flags[i] = c07Flag{Outsider: d%2 == 1, B: (d/2)%2 == 1, Skip: d / 4}
					if flags[i].Skip == 2 {
						anySkipEnd++
					}
				}
				if g == 1 && anySkipEnd < 2 {
					continue // grouping only differs with >= 2 end skips
				}
				r := c.Rand(uint64(7000000 + idx))
				h := c07Build(r, flags, g == 1)
				histJudge(c, h, &gitBudget, idx%2503 == 0, true)
			}
		}
	}
	// sampled longer patterns with two refs heavily interleaved
	n := c.Pick(1500, 60000) / c.NShards
	r := c.Rand(uint64(7100 + c.Shard))
	for i := 0; i < n; i++ {
		L := 5 + r.IntN(6)
		flags := make([]c07Flag, L)
		for j := range flags {
			flags[j] = c07Flag{Outsider: r.IntN(3) == 0, B: r.IntN(2) == 0, Skip: []int{0, 0, 1, 2}[r.IntN(4)]}
		}
		h := c07Build(r, flags, r.IntN(2) == 0)
		histJudge(c, h, &gitBudget, i%300 == 0, true)
	}
}

func replayC07(c *fw.Ctx, raw json.RawMessage) error {
	var cs c01Case
	if err := json.Unmarshal(raw, &cs); err != nil {
		return err
	}
	if cs.History == nil {
		var w struct {
			Case c01Case `json:"case"`
		}
		if err := json.Unmarshal(raw, &w); err != nil || w.Case.History == nil {
			return fmt.Errorf("no history in replay file")
		}
		cs = w.Case
	}
	for _, l := range describeHistory(cs.History) {
		fmt.Println("  ", l)
	}
	budget := 1
	histJudge(c, cs.History, &budget, true, true)
	return nil
}
