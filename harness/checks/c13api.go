package checks

import (
	"context"
	"fmt"
	"math/rand/v2"
	"sort"
	"strings"

	"github.com/gittuf/gittuf/experimental/gittuf"
	"github.com/gittuf/gittuf/internal/policy"
	policyopts "github.com/gittuf/gittuf/internal/policy/options/policy"
	sslibssh "github.com/gittuf/gittuf/internal/signerverifier/ssh"
	"github.com/gittuf/gittuf/internal/tuf"
	"github.com/gittuf/gittuf/internal/verifharness/fw"
	"github.com/gittuf/gittuf/internal/verifharness/keys"
	"github.com/gittuf/gittuf/pkg/rsl"
)

// C13, repository-API side: "user rule names never carry the reserved prefix and
// (through the repository API) stay unique across all rule files".
//
// Random sequences of InitializeTargets / AddPrincipalToTargets / AddDelegation /
// UpdateDelegation / RemoveDelegation through experimental/gittuf on a real
// repository, rule names drawn from a pool of five (so that reuse is frequent,
// in the same rule file and in another one), patterns of the git: and file:
// schemes in any order. After every call the staged policy is loaded and every
// rule file is read: the multiset of non-allow rule names must have no
// repetition and no name with the reserved prefix, whatever the call returned.

type c13APIOp struct {
	Op      string `json:"op"`
	File    string `json:"file"`
	Name    string `json:"name,omitempty"`
	Pattern string `json:"pattern,omitempty"`
}

type c13APICase struct {
	APIOps []c13APIOp `json:"api_ops"`
	At     int        `json:"at"`
}

var c13APINames = []string{"alpha", "beta", "gamma", "delta", "gittuf-reserved"}
var c13APIPatterns = []string{"git:refs/heads/main", "git:refs/heads/dev/*", "file:src/*", "file:docs/readme", "git:refs/tags/*"}

func c13APIGen(r *rand.Rand) []c13APIOp {
	ops := []c13APIOp{}
	files := []string{policy.TargetsRoleName}
	rulesIn := map[string][]string{} // model of what was asked for, only to steer generation
	n := 8 + r.IntN(8)
	for len(ops) < n {
		file := files[r.IntN(len(files))]
		switch x := r.IntN(10); {
		case x < 6:
			name := c13APINames[r.IntN(len(c13APINames))]
			ops = append(ops, c13APIOp{Op: "AddDelegation", File: file, Name: name, Pattern: c13APIPatterns[r.IntN(len(c13APIPatterns))]})
			rulesIn[file] = append(rulesIn[file], name)
		case x < 8:
			// a delegated rule file for an existing rule
			if len(rulesIn[file]) == 0 {
				continue
			}
			name := rulesIn[file][r.IntN(len(rulesIn[file]))]
			known := false
			for _, f := range files {
				if f == name {
					known = true
				}
			}
			if known || strings.HasPrefix(name, tuf.GittufPrefix) {
				continue
			}
			ops = append(ops, c13APIOp{Op: "InitializeTargets", File: name})
			files = append(files, name)
		case x < 9:
			name := c13APINames[r.IntN(len(c13APINames))]
			ops = append(ops, c13APIOp{Op: "UpdateDelegation", File: file, Name: name, Pattern: c13APIPatterns[r.IntN(len(c13APIPatterns))]})
		default:
			name := c13APINames[r.IntN(len(c13APINames))]
			isFile := false
			for _, f := range files {
				if f == name {
					isFile = true
				}
			}
			if isFile {
				continue // removing the rule would orphan its rule file
			}
			ops = append(ops, c13APIOp{Op: "RemoveDelegation", File: file, Name: name})
		}
	}
	return ops
}

func c13APIRun(c *fw.Ctx, ops []c13APIOp) {
	rsl.VerifResetCache()
	g, cleanup, err := newScratchGit(c, "c13api")
	if err != nil {
		c.Inconclusive("git init")
		return
	}
	defer cleanup()
	api, err := gittuf.LoadRepository(g.Dir)
	if err != nil {
		c.Inconclusive("load repository")
		return
	}
	ctx := context.Background()
	keyDir := c.Scratch(fmt.Sprintf("c13keys-%d", scratchCounter.Add(1)))
	defer removeAll(keyDir)
	r1Signer, err := sslibssh.NewSignerFromFile(keys.Get("r1").WriteFiles(keyDir))
	if err != nil {
		c.Inconclusive("ssh signer")
		return
	}
	k1 := keys.Get("k1").KeyPrincipalV01()
	signer := keys.DSSE{A: keys.Get("k1")}
	steps := []func() error{
		func() error { return api.InitializeRoot(ctx, r1Signer, false) },
		func() error { return api.AddTopLevelTargetsKey(ctx, keys.DSSE{A: keys.Get("r1")}, k1, false) },
		func() error { return api.InitializeTargets(ctx, signer, policy.TargetsRoleName, false) },
		func() error {
			return api.AddPrincipalToTargets(ctx, signer, policy.TargetsRoleName, []tufPrincipal{k1}, false)
		},
	}
	for i, st := range steps {
		if err := st(); err != nil {
			c.Inconclusive(fmt.Sprintf("api setup step %d: %s", i, trunc(err.Error(), 60)))
			return
		}
	}
	for i, op := range ops {
		c.Eval(1)
		cs := c13APICase{APIOps: ops[:i+1], At: i}
		stop := false
		c.Guard(cs, func() {
			var err error
			switch op.Op {
			case "AddDelegation":
				err = api.AddDelegation(ctx, signer, op.File, op.Name, []string{k1.ID()}, []string{op.Pattern}, 1, false)
			case "UpdateDelegation":
				err = api.UpdateDelegation(ctx, signer, op.File, op.Name, []string{k1.ID()}, []string{op.Pattern}, 1, false)
			case "RemoveDelegation":
				err = api.RemoveDelegation(ctx, signer, op.File, op.Name, false)
			case "InitializeTargets":
				if err = api.InitializeTargets(ctx, signer, op.File, false); err == nil {
					err = api.AddPrincipalToTargets(ctx, signer, op.File, []tufPrincipal{k1}, false)
				}
			}
			if err != nil {
				c.Count("api:"+op.Op+":refused", 1)
			} else {
				c.Count("api:"+op.Op+":accepted", 1)
			}
			state, lerr := policy.LoadCurrentState(ctx, g, policy.PolicyStagingRef, policyopts.BypassRSL())
			if lerr != nil {
				c.Violation("staged-policy-unloadable-after-api-edit", map[string]string{"op": op.Op}, fmt.Sprintf("after %s(%s, %s) returned %v the staged policy no longer loads: %v", op.Op, op.File, op.Name, err, lerr), cs)
				stop = true
				return
			}
			files := []string{policy.TargetsRoleName}
			for name := range state.Metadata.DelegationEnvelopes {
				files = append(files, name)
			}
			sort.Strings(files)
			where := map[string][]string{}
			withFileRuleBefore := false
			for _, f := range files {
				md, merr := state.GetTargetsMetadata(f, false)
				if merr != nil {
					c.Inconclusive("rule file unreadable: " + trunc(merr.Error(), 50))
					return
				}
				for _, rule := range md.GetRules() {
					if rule.ID() == tuf.AllowRuleName {
						continue
					}
					where[rule.ID()] = append(where[rule.ID()], f)
					for _, p := range rule.GetProtectedNamespaces() {
						if strings.HasPrefix(p, "file:") {
							withFileRuleBefore = true
						}
					}
				}
			}
			for name, fs := range where {
				if strings.HasPrefix(name, tuf.GittufPrefix) {
					c.Violation("reserved-prefix-rule-name-accepted", map[string]string{"op": op.Op}, fmt.Sprintf("rule %q exists in %v after %s returned %v", name, fs, op.Op, err), cs)
					stop = true
					return
				}
				if len(fs) > 1 {
					kind := "across-rule-files"
					if fs[0] == fs[1] {
						kind = "within-one-rule-file"
					}
					c.Violation("rule-name-not-unique", map[string]string{"op": op.Op, "where": kind}, fmt.Sprintf("rule name %q occurs in %v after %s(%s, %s) returned %v", name, fs, op.Op, op.File, op.Name, err), cs)
					stop = true
					return
				}
			}
			if len(where) >= 2 {
				c.Nontrivial(fw.Hash("api", fmt.Sprint(where), op.Op, op.Name, op.File))
			}
			if withFileRuleBefore {
				c.Count("api:checked-with-file-rule-present", 1)
			}
			c.Count("api:rule-names-checked", 1)
		})
		if stop {
			return
		}
	}
}
