package checks

import (
	"encoding/base64"
	"encoding/json"
	"fmt"
	"math/rand/v2"
	"sort"
	"strings"

	"github.com/gittuf/gittuf/internal/attestations"
	authorizationsv01 "github.com/gittuf/gittuf/internal/attestations/authorizations/v01"
	"github.com/gittuf/gittuf/internal/policy"
	"github.com/gittuf/gittuf/internal/signerverifier/dsse"
	"github.com/gittuf/gittuf/internal/verifharness/fw"
	"github.com/gittuf/gittuf/internal/verifharness/keys"
	"github.com/gittuf/gittuf/internal/verifharness/scen"
	"github.com/gittuf/gittuf/pkg/githash"
	"github.com/gittuf/gittuf/pkg/gitstore"
	"github.com/gittuf/gittuf/pkg/rsl"
	ita "github.com/in-toto/attestation/go/v1"
)

// C09 — approvals count only for the exact change named, once per principal.
//
// A change X = (main, from = previous entry's commit, to = tree of the pushed
// commit) under a threshold-2/3 rule over Person principals. The attestation
// tree is written raw (bypassing the validating setters): reference
// authorizations and code-review approvals whose *statement* names X or a
// neighbour Y (other ref / from / to), stored at X's lookup path or at Y's,
// signed by any subset of trusted / untrusted keys, v0.1 or v0.2 predicate,
// app trusted / untrusted / absent, approval envelope signed by the app key or
// another key, approvers mapping to trusted principals / to the entry's own
// signer / to nobody, dismissed approvers, attestation recorded before or after
// the entry.
// Oracle (soundness for every placement): accept => |credited| >= threshold,
// where credited = {entry signer} ∪ {trusted signers of a statement naming
// exactly X found in the attestation state preceding the entry} ∪ {trusted
// principals named, not dismissed, by a statement naming exactly X signed by a
// trusted app's key}. Canonical placement with enough signers => accept.

func init() {
	fw.Register(&fw.Check{
		ID:    "C09",
		Level: "exploration",
		Rule: "(statement, storage path, signer set) triples as described in DESIGN.md §6 C09, sampled; every case is a two-push history (or, in a quarter of the cases, the creation of a signed tag whose approvals name the tagged commit, with neighbours differing in tag name, prior state or tagged commit) on the in-memory Storer verified with VerifyRefFull (and VerifyMergeable for the prediction side in C19). " +
			"distinct = hash of the case; non-trivial = at least one attestation is present whose statement or path differs from the canonical placement, or whose signers include both trusted and untrusted keys",
		Assumptions: []string{
			"principals are tuf v0.2 Persons with one key each and an associated identity for the app",
			"an approval 'names exactly X' when its predicate's (targetRef, from, target tree) equal X's; the subject digest must equal the target tree as well",
		},
		MinNontrivial: 500,
		Run:           runC09,
		Replay:        replayC09,
	})
}

const c09App = "https://gittuf.dev/github-app"

type c09Change struct {
	Ref  string `json:"ref"`
	From string `json:"from"` // "prev" | "zero" | "other"
	To   string `json:"to"`   // content whose tree is the target: "x" | "y"
}

type c09Auth struct {
	Statement c09Change `json:"statement"` // what the signed statement names
	Path      c09Change `json:"path"`      // where it is stored
	Version   string    `json:"version"`   // v01 | v02
	Signers   []string  `json:"signers"`
}

type c09Review struct {
	Statement c09Change `json:"statement"`
	Path      c09Change `json:"path"`
	SignedBy  string    `json:"signed_by"` // actor: "app" (the app's key) or another
	Approvers []string  `json:"approvers"` // identities
	Dismissed []string  `json:"dismissed"`
}

type c09Case struct {
	Threshold   int         `json:"threshold"`
	Trusted     []string    `json:"trusted"` // keys of the rule's principals (k1..k3)
	EntrySigner string      `json:"entry_signer"`
	App         string      `json:"app"` // trusted | untrusted | absent
	Auths       []c09Auth   `json:"auths"`
	Reviews     []c09Review `json:"reviews"`
	After       bool        `json:"after"` // attestations recorded after the entry instead of before
	// Tag: the change under test is the creation of refs/tags/v1 (approvals name the
	// tagged commit instead of a tree); code-review approvals do not apply to tags
	Tag bool `json:"tag,omitempty"`
	// BareKey: the rule additionally trusts the first person's key as a bare key
	// principal (two principals, one key: still one approver)
	BareKey bool `json:"bare_key,omitempty"`
}

var c09X = c09Change{Ref: refMain, From: "prev", To: "x"}

// c09XTag is the change under test in tag mode: refs/tags/v1, already recorded once
// is recorded again pointing - through a new signed tag
// object - at commit x; "prev" is the previously recorded tag object.
var c09XTag = c09Change{Ref: refTag, From: "prev", To: "x"}

func (cs c09Case) x() c09Change {
	if cs.Tag {
		return c09XTag
	}
	return c09X
}

func identityOf(k string) string { return "user-" + k }

func c09Policy(cs c09Case) scen.Policy {
	prs := []scen.Principal{}
	ids := []string{}
	for _, k := range cs.Trusted {
		prs = append(prs, scen.Principal{ID: "person-" + k, Keys: []string{k}, Person: true, Identities: map[string]string{c09App: identityOf(k)}})
		ids = append(ids, "person-"+k)
	}
	if cs.BareKey {
		prs = append(prs, keyPrincipal(cs.Trusted[0]))
		ids = append(ids, keyPrincipal(cs.Trusted[0]).ID)
	}
	p := scen.Policy{
		RootPrincipals: []scen.Principal{rootPrincipal}, RootThreshold: 1, RootSigners: []string{"root"},
		TargetsPrincipals: []scen.Principal{rootPrincipal}, TargetsThreshold: 1,
		Files: []scen.RuleFile{{Name: "targets", Principals: prs, Signers: []string{"root"}, Rules: []scen.Rule{{Name: "protect-main", Patterns: []string{"git:" + refMain}, Principals: ids, Threshold: cs.Threshold}, {Name: "protect-tags", Patterns: []string{"git:refs/tags/*"}, Principals: ids, Threshold: cs.Threshold}}}},
	}
	switch cs.App {
	case "trusted":
		p.Apps = []scen.App{{Name: c09App, Key: "appkey", Trusted: true}}
	case "untrusted":
		p.Apps = []scen.App{{Name: c09App, Key: "appkey", Trusted: false}}
	}
	return p
}

type c09Env struct {
	b       *scen.Mem
	prev    githash.Hash
	other   githash.Hash
	treeX   githash.Hash
	treeY   githash.Hash
	commitX githash.Hash
	commitY githash.Hash
	tag     bool
	prevTag githash.Hash
}

func (e *c09Env) resolve(ch c09Change) (ref, from, to string) {
	ref = ch.Ref
	switch ch.From {
	case "prev":
		from = e.prev.String()
		if e.tag && ch.Ref != refMain {
			from = e.prevTag.String()
		}
	case "zero":
		from = strings.Repeat("0", 40)
	default:
		from = e.other.String()
	}
	switch {
	case e.tag && ch.To == "x":
		to = e.commitX.String()
	case e.tag:
		to = e.commitY.String()
	case ch.To == "x":
		to = e.treeX.String()
	default:
		to = e.treeY.String()
	}
	return
}

func c09Statement(version, ref, from, to string, tag bool) (*ita.Statement, error) {
	if tag {
		return attestations.NewReferenceAuthorizationForTag(ref, from, to)
	}
	if version == "v01" {
		return authorizationsv01.NewReferenceAuthorization(ref, from, to)
	}
	return attestations.NewReferenceAuthorizationForCommit(ref, from, to)
}

// c09WriteAttestations writes the raw attestation tree and records it.
func c09WriteAttestations(e *c09Env, cs c09Case) error {
	entries := []gitstore.TreeEntry{}
	seen := map[string]bool{}
	for _, a := range cs.Auths {
		ref, from, to := e.resolve(a.Statement)
		stmt, err := c09Statement(a.Version, ref, from, to, e.tag)
		if err != nil {
			return err
		}
		env, err := dsse.CreateEnvelope(stmt)
		if err != nil {
			return err
		}
		for _, s := range a.Signers {
			env, err = dsse.SignEnvelope(scen.Ctx, env, keys.DSSE{A: keys.Get(s)})
			if err != nil {
				return err
			}
		}
		blob, _ := json.Marshal(env)
		id, err := e.b.WriteBlob(blob)
		if err != nil {
			return err
		}
		pref, pfrom, pto := e.resolve(a.Path)
		path := "reference-authorizations/" + attestations.ReferenceAuthorizationPath(pref, pfrom, pto)
		if seen[path] {
			continue
		}
		seen[path] = true
		entries = append(entries, gitstore.TreeEntry{Path: path, ID: id, Kind: gitstore.KindBlob})
	}
	for _, rv := range cs.Reviews {
		ref, from, to := e.resolve(rv.Statement)
		stmt, err := attestations.NewGitHubPullRequestApprovalAttestation(ref, from, to, rv.Approvers, rv.Dismissed)
		if err != nil {
			return err
		}
		env, err := dsse.CreateEnvelope(stmt)
		if err != nil {
			return err
		}
		signer := rv.SignedBy
		if signer == "app" {
			signer = "appkey"
		}
		env, err = dsse.SignEnvelope(scen.Ctx, env, keys.DSSE{A: keys.Get(signer)})
		if err != nil {
			return err
		}
		blob, _ := json.Marshal(env)
		id, err := e.b.WriteBlob(blob)
		if err != nil {
			return err
		}
		pref, pfrom, pto := e.resolve(rv.Path)
		path := "code-review-approvals/" + attestations.GitHubPullRequestApprovalAttestationPath(pref, pfrom, pto) + "/" + base64.URLEncoding.EncodeToString([]byte(c09App))
		if seen[path] {
			continue
		}
		seen[path] = true
		entries = append(entries, gitstore.TreeEntry{Path: path, ID: id, Kind: gitstore.KindBlob})
	}
	if len(entries) == 0 {
		return nil
	}
	tree, err := e.b.WriteTree(entries)
	if err != nil {
		return err
	}
	e.b.SetSigner(nil)
	cid, err := e.b.Commit(tree, attestations.Ref, "attestations\n", false)
	if err != nil {
		return err
	}
	return rsl.NewReferenceEntry(attestations.Ref, cid).Commit(e.b, false)
}

// ---- oracle

func c09Credited(cs c09Case) (credited map[string]bool, canonicalEnough bool) {
	trusted := map[string]bool{}
	for _, k := range cs.Trusted {
		trusted[k] = true
	}
	credited = map[string]bool{}
	if trusted[cs.EntrySigner] {
		credited[cs.EntrySigner] = true
	}
	canon := map[string]bool{}
	if trusted[cs.EntrySigner] {
		canon[cs.EntrySigner] = true
	}
	if !cs.After {
		firstAtX := true
		for _, a := range cs.Auths {
			storedAtX := a.Path == cs.x() && firstAtX // a second blob for the same path is not written
			if a.Path == cs.x() {
				firstAtX = false
			}
			if a.Statement != cs.x() {
				continue
			}
			// soundness: a statement naming exactly X counts wherever it is stored
			for _, s := range a.Signers {
				if trusted[s] {
					credited[s] = true
					if storedAtX {
						canon[s] = true
					}
				}
			}
		}
		if cs.App == "trusted" {
			firstRV := true
			for _, rv := range cs.Reviews {
				storedAtX := rv.Path == cs.x() && firstRV
				if rv.Path == cs.x() {
					firstRV = false
				}
				if rv.Statement != cs.x() || rv.SignedBy != "app" {
					continue
				}
				dismissed := map[string]bool{}
				for _, d := range rv.Dismissed {
					dismissed[d] = true
				}
				for _, ap := range rv.Approvers {
					for _, k := range cs.Trusted {
						if identityOf(k) == ap && !dismissed[ap] {
							credited[k] = true
							if storedAtX {
								canon[k] = true
							}
						}
					}
				}
			}
		}
	}
	return credited, len(canon) >= cs.Threshold
}

// c09BareKeyExtra is 1 when the rule also lists the first person's key as a bare
// key principal and that human is credited both through a signature (which gittuf
// may attribute to the bare key principal) and through a code-review approval
// (attributed to the person): two principals of the policy, each counted once.
func c09BareKeyExtra(cs c09Case) int {
	if !cs.BareKey || cs.After {
		return 0
	}
	k := cs.Trusted[0]
	viaSig := cs.EntrySigner == k
	for _, a := range cs.Auths {
		if a.Statement != cs.x() {
			continue
		}
		for _, s := range a.Signers {
			if s == k {
				viaSig = true
			}
		}
	}
	viaApp := false
	if cs.App == "trusted" {
		for _, rv := range cs.Reviews {
			if rv.Statement != cs.x() || rv.SignedBy != "app" {
				continue
			}
			dismissed := false
			for _, d := range rv.Dismissed {
				if d == identityOf(k) {
					dismissed = true
				}
			}
			for _, ap := range rv.Approvers {
				if ap == identityOf(k) && !dismissed {
					viaApp = true
				}
			}
		}
	}
	if viaSig && viaApp {
		return 1
	}
	return 0
}

// c09Clean reports whether the case contains nothing that can make gittuf
// fail closed for reasons other than the count (an invalid envelope at X's path,
// a review signed by a non-app key): liveness is asserted only then.
func c09Clean(cs c09Case) bool {
	for _, a := range cs.Auths {
		if a.Path == cs.x() && a.Statement != cs.x() {
			return false
		}
		if len(a.Signers) == 0 && a.Path == cs.x() {
			return false
		}
	}
	for _, rv := range cs.Reviews {
		if rv.Path == cs.x() && (rv.Statement != cs.x() || rv.SignedBy != "app") {
			return false
		}
	}
	return true
}

func c09Judge(c *fw.Ctx, cs c09Case) {
	c.Eval(1)
	rsl.VerifResetCache()
	b := scen.NewMem()
	e := &c09Env{b: b, tag: cs.Tag}
	if err := scen.StageAndApply(b, c09Policy(cs), "root"); err != nil {
		c.Inconclusive("policy: " + trunc(err.Error(), 60))
		return
	}
	// previous state of main, authorized by the first trusted key with enough approvals? keep it
	// simple: the first push happens before the rule can matter for X: signed by all via a
	// canonical authorization
	first, _ := b.CommitFiles(map[string]string{"f": "base"}, nil, "base", nil)
	other, _ := b.CommitFiles(map[string]string{"f": "other"}, nil, "other", nil)
	cx, _ := b.CommitFiles(map[string]string{"f": "x"}, []githash.Hash{first}, "x", nil)
	cy, _ := b.CommitFiles(map[string]string{"f": "y"}, []githash.Hash{first}, "y", nil)
	e.prev, e.other, e.commitX, e.commitY = first, other, cx, cy
	e.treeX, _ = b.GetCommitTreeID(cx)
	e.treeY, _ = b.GetCommitTreeID(cy)
	// authorize the base push canonically so that the history up to X is valid
	baseTree, _ := b.GetCommitTreeID(first)
	atts, _ := attestations.LoadCurrentAttestations(b)
	stmt, _ := attestations.NewReferenceAuthorizationForCommit(refMain, strings.Repeat("0", 40), baseTree.String())
	env, _ := dsse.CreateEnvelope(stmt)
	for _, k := range cs.Trusted {
		env, _ = dsse.SignEnvelope(scen.Ctx, env, keys.DSSE{A: keys.Get(k)})
	}
	if err := atts.SetReferenceAuthorization(b, env, refMain, strings.Repeat("0", 40), baseTree.String()); err != nil {
		c.Inconclusive("base authorization")
		return
	}
	b.SetSigner(nil)
	if err := atts.Commit(b, "base att\n", true, false); err != nil {
		c.Inconclusive("base attestation commit")
		return
	}
	_ = b.SetRef(refMain, first)
	if _, err := scen.RecordEntry(b, refMain, first, cs.Trusted[0]); err != nil {
		c.Inconclusive("base entry")
		return
	}
	if cs.Tag {
		// the tag exists already: recorded once by a trusted principal with everybody's
		// approval. gittuf refuses older entries of a moved tag in full verification,
		// so tag mode verifies the latest entry only (VerifyRef)
		t0, err := b.Tag(first, "v1", "first release", keys.Get(cs.Trusted[0]))
		if err != nil {
			c.Inconclusive("base tag object")
			return
		}
		e.prevTag = t0
		atts, _ := attestations.LoadCurrentAttestations(b)
		stmt, _ := attestations.NewReferenceAuthorizationForTag(refTag, strings.Repeat("0", 40), first.String())
		env, _ := dsse.CreateEnvelope(stmt)
		for _, k := range cs.Trusted {
			env, _ = dsse.SignEnvelope(scen.Ctx, env, keys.DSSE{A: keys.Get(k)})
		}
		if err := atts.SetReferenceAuthorization(b, env, refTag, strings.Repeat("0", 40), first.String()); err != nil {
			c.Inconclusive("base tag authorization")
			return
		}
		b.SetSigner(nil)
		if err := atts.Commit(b, "base tag att\n", true, false); err != nil {
			c.Inconclusive("base tag attestation commit")
			return
		}
		_ = b.SetRef(refTag, t0)
		baseTagEntry, err := scen.RecordEntry(b, refTag, t0, cs.Trusted[0])
		if err != nil {
			c.Inconclusive("base tag entry")
			return
		}
		_ = baseTagEntry
	}
	// NOTE: the raw attestation tree replaces the base authorization; the base entry was
	// verified against the state preceding it, which still contains it.
	if !cs.After {
		if err := c09WriteAttestations(e, cs); err != nil {
			c.Inconclusive("attestations: " + trunc(err.Error(), 60))
			return
		}
	}
	verifyRef := refMain
	if cs.Tag {
		// the tag object is signed by a trusted principal; the entry by cs.EntrySigner
		tagID, err := b.Tag(cx, "v1", "release", keys.Get(cs.Trusted[0]))
		if err != nil {
			c.Inconclusive("tag object")
			return
		}
		_ = b.SetRef(refTag, tagID)
		if _, err := scen.RecordEntry(b, refTag, tagID, cs.EntrySigner); err != nil {
			c.Inconclusive("entry X (tag)")
			return
		}
		verifyRef = refTag
	} else {
		_ = b.SetRef(refMain, cx)
		if _, err := scen.RecordEntry(b, refMain, cx, cs.EntrySigner); err != nil {
			c.Inconclusive("entry X")
			return
		}
	}
	if cs.After {
		if err := c09WriteAttestations(e, cs); err != nil {
			c.Inconclusive("attestations: " + trunc(err.Error(), 60))
			return
		}
	}
	credited, canonicalEnough := c09Credited(cs)
	nontrivial := false
	for _, a := range cs.Auths {
		if a.Statement != cs.x() || a.Path != cs.x() {
			nontrivial = true
		}
	}
	for _, rv := range cs.Reviews {
		if rv.Statement != cs.x() || rv.Path != cs.x() || rv.SignedBy != "app" || len(rv.Dismissed) > 0 {
			nontrivial = true
		}
	}
	if nontrivial || cs.After || len(cs.Auths)+len(cs.Reviews) > 1 {
		c.Nontrivial(fw.Hash(cs))
	}
	c.Guard(cs, func() {
		var err error
		if cs.Tag {
			_, err = policy.NewPolicyVerifier(b).VerifyRef(scen.Ctx, verifyRef)
		} else {
			_, err = policy.NewPolicyVerifier(b).VerifyRefFull(scen.Ctx, verifyRef)
		}
		if cs.Tag {
			c.Count("tag-mode:"+strings.SplitN(errClass(err), ":", 2)[0], 1)
		}
		c.Count("observed:"+strings.SplitN(errClass(err), ":", 2)[0], 1)
		if err == nil && len(credited)+c09BareKeyExtra(cs) < cs.Threshold {
			c.Violation("approval-overcount", map[string]string{"cause": c09Cause(cs)}, fmt.Sprintf("change X accepted with threshold %d although only %v can be credited for exactly X", cs.Threshold, keysOf(credited)), cs)
			return
		}
		if err != nil && canonicalEnough && c09Clean(cs) {
			c.Violation("approval-undercount", map[string]string{"error": strings.SplitN(errClass(err), ":", 3)[1]}, fmt.Sprintf("change X rejected although %d >= %d principals approved it canonically: %v", len(credited), cs.Threshold, err), cs)
			return
		}
		c.Count("agree", 1)
	})
}

// c09Cause names what could have been miscounted, from the scenario alone.
func c09Cause(cs c09Case) string {
	causes := map[string]bool{}
	if cs.After {
		causes["attestation-recorded-after-entry"] = true
	}
	for _, a := range cs.Auths {
		if a.Statement != cs.x() && a.Path == cs.x() {
			causes["authorization-for-other-change-at-X-path"] = true
		}
		for _, s := range a.Signers {
			trusted := false
			for _, k := range cs.Trusted {
				if k == s {
					trusted = true
				}
			}
			if !trusted {
				causes["untrusted-authorization-signer"] = true
			}
		}
	}
	for _, rv := range cs.Reviews {
		if rv.Statement != cs.x() && rv.Path == cs.x() {
			causes["review-for-other-change-at-X-path"] = true
		}
		if rv.SignedBy != "app" {
			causes["review-not-signed-by-app"] = true
		}
		if len(rv.Dismissed) > 0 {
			causes["dismissed-approver"] = true
		}
		if cs.App != "trusted" {
			causes["review-from-untrusted-or-absent-app"] = true
		}
	}
	out := []string{}
	for k := range causes {
		out = append(out, k)
	}
	sort.Strings(out)
	if len(out) == 0 {
		return "count"
	}
	return strings.Join(out, "+")
}

func c09Gen(r *rand.Rand) c09Case {
	cs := c09Case{Threshold: 2 + r.IntN(2), Trusted: []string{"k1", "k2", "k3"}}
	cs.EntrySigner = []string{"k1", "k1", "kx", "", "k2"}[r.IntN(5)]
	cs.App = []string{"trusted", "trusted", "untrusted", "absent"}[r.IntN(4)]
	cs.After = r.IntN(8) == 0
	cs.Tag = r.IntN(4) == 0
	cs.BareKey = r.IntN(4) == 0
	change := func() c09Change {
		if cs.Tag {
			switch r.IntN(8) {
			case 0:
				return c09Change{Ref: "refs/tags/v2", From: "prev", To: "x"}
			case 1:
				return c09Change{Ref: refTag, From: "zero", To: "x"} // approval of creating the tag, not of moving it
			case 2:
				return c09Change{Ref: refTag, From: "other", To: "x"}
			case 3:
				return c09Change{Ref: refTag, From: "prev", To: "y"}
			case 4:
				return c09Change{Ref: refMain, From: "zero", To: "x"}
			default:
				return cs.x()
			}
		}
		switch r.IntN(8) {
		case 0:
			return c09Change{Ref: refRel, From: "prev", To: "x"}
		case 1:
			return c09Change{Ref: refMain, From: "zero", To: "x"}
		case 2:
			return c09Change{Ref: refMain, From: "other", To: "x"}
		case 3:
			return c09Change{Ref: refMain, From: "prev", To: "y"}
		default:
			return cs.x()
		}
	}
	signers := func() []string {
		pool := []string{"k1", "k2", "k3", "kx", "ky"}
		out := []string{}
		for _, k := range pool {
			if r.IntN(3) == 0 {
				out = append(out, k)
			}
		}
		return out
	}
	na := r.IntN(3)
	for i := 0; i < na; i++ {
		a := c09Auth{Statement: change(), Version: []string{"v01", "v02"}[r.IntN(2)], Signers: signers()}
		if r.IntN(3) == 0 {
			a.Path = change()
		} else {
			a.Path = a.Statement
		}
		if r.IntN(3) == 0 {
			a.Path = cs.x() // hostile: whatever the statement says, file it where X is looked up
		}
		cs.Auths = append(cs.Auths, a)
	}
	nr := r.IntN(2)
	if cs.App == "absent" && r.IntN(2) == 0 {
		nr = 0
	}
	if cs.Tag {
		nr = 0 // code-review approvals are not consulted for tags
	}
	for i := 0; i < nr; i++ {
		rv := c09Review{Statement: change(), SignedBy: []string{"app", "app", "app", "kx", "k1"}[r.IntN(5)]}
		ids := []string{identityOf("k1"), identityOf("k2"), identityOf("k3"), "user-nobody", identityOf("kx")}
		for _, id := range ids {
			if r.IntN(2) == 0 {
				rv.Approvers = append(rv.Approvers, id)
			} else if r.IntN(4) == 0 {
				rv.Dismissed = append(rv.Dismissed, id)
			}
		}
		if len(rv.Approvers) == 0 && len(rv.Dismissed) == 0 {
			rv.Approvers = []string{identityOf("k2")}
		}
		if r.IntN(3) == 0 {
			rv.Path = cs.x()
		} else {
			rv.Path = rv.Statement
		}
		cs.Reviews = append(cs.Reviews, rv)
	}
	return cs
}

func runC09(c *fw.Ctx) {
	r := c.Rand(uint64(900 + c.Shard))
	n := c.Pick(6000, 200000) / c.NShards
	for i := 0; i < n; i++ {
		cs := c09Gen(r)
		c09Judge(c, cs)
		if i%200 == 0 {
			c.Sample(cs)
		}
	}
}

func replayC09(c *fw.Ctx, raw json.RawMessage) error {
	var cs c09Case
	if err := json.Unmarshal(raw, &cs); err != nil {
		return err
	}
	if len(cs.Trusted) == 0 {
		var w struct {
			Case c09Case `json:"case"`
		}
		if err := json.Unmarshal(raw, &w); err == nil {
			cs = w.Case
		}
	}
	b, _ := json.MarshalIndent(cs, "", " ")
	fmt.Println(string(b))
	cr, enough := c09Credited(cs)
	fmt.Printf("oracle: credited=%v canonical-enough=%v clean=%v\n", keysOf(cr), enough, c09Clean(cs))
	c09Judge(c, cs)
	return nil
}
