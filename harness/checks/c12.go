package checks

import (
	"context"
	"encoding/json"
	"errors"
	"fmt"
	"math/rand/v2"
	"strings"

	gittuf "github.com/gittuf/gittuf/experimental/gittuf"
	trustpolicyopts "github.com/gittuf/gittuf/experimental/gittuf/options/trustpolicy"
	"github.com/gittuf/gittuf/internal/policy"
	sslibssh "github.com/gittuf/gittuf/internal/signerverifier/ssh"
	"github.com/gittuf/gittuf/internal/verifharness/fw"
	"github.com/gittuf/gittuf/internal/verifharness/keys"
	"github.com/gittuf/gittuf/internal/verifharness/scen"
	"github.com/gittuf/gittuf/pkg/githash"
	"github.com/gittuf/gittuf/pkg/rsl"
)

// C12 — policy ref advances only to verified descendants that verification accepts.
//
// API operation sequences on real git through experimental/gittuf.Repository.
// Oracle: an abstract state machine for what must be refused and what must not
// change, plus writer/verifier agreement (model-free): after every successful
// Apply, LoadCurrentState and full verification of a protected branch succeed.

func init() {
	fw.Register(&fw.Check{
		ID:    "C12",
		Level: "exploration",
		Rule: "random API sequences (length 4-16) after InitializeRoot: AddRootKey / RemoveRootKey / UpdateRootThreshold / SignRoot by signers inside and outside the staged root role, AddTopLevelTargetsKey, InitializeTargets, AddPrincipalToTargets + AddDelegation, AddGlobalRuleThreshold, StagePolicy, ApplyPolicy, DiscardPolicy, pushes to the protected branch, and tampering (refs/gittuf/policy or policy-staging moved with raw update-ref; an RSL entry for the policy ref that disagrees with it). " +
			"distinct = hash of the sequence; non-trivial = the sequence contains a successful Apply after a root change, or a refused operation",
		Assumptions: []string{
			"real git only; InitializeRoot needs an *ssh.Signer (key file + ssh-keygen), the other operations use in-process signers",
			"the protected branch is only ever pushed by a key that every policy state authorizes, so after a successful Apply full verification must accept",
		},
		MinNontrivial: 20,
		Run:           runC12,
		Replay:        replayC12,
	})
}

type c12Op struct {
	Op     string `json:"op"`
	Signer string `json:"signer,omitempty"`
	Key    string `json:"key,omitempty"`
	N      int    `json:"n,omitempty"`
}

type c12Case struct {
	Ops []c12Op `json:"ops"`
	At  int     `json:"at"`
}

var c12RootPool = []string{"r1", "r2", "r3"}

func c12Gen(r *rand.Rand) []c12Op {
	ops := []c12Op{
		{Op: "AddTopLevelTargetsKey", Signer: "r1", Key: "t1"},
		{Op: "InitializeTargets", Signer: "t1"},
		{Op: "AddPrincipalAndRule", Signer: "t1"},
		{Op: "StagePolicy"}, {Op: "ApplyPolicy"},
		{Op: "Push"},
	}
	if r.IntN(4) == 0 {
		// no policy applied yet when the random part starts: the first Apply happens
		// somewhere inside it (possibly after policy-staging was moved without an entry)
		ops = []c12Op{
			{Op: "AddTopLevelTargetsKey", Signer: "r1", Key: "t1"},
			{Op: "InitializeTargets", Signer: "t1"},
			{Op: "AddPrincipalAndRule", Signer: "t1"},
			{Op: "StagePolicy"},
			{Op: []string{"TamperStagingRef", "AddGlobalRule", "StagePolicy"}[r.IntN(3)], Signer: "r1", N: 99},
		}
	}
	n := 4 + r.IntN(13)
	signers := []string{"r1", "r1", "r2", "r3", "t1", "kx"}
	for i := 0; i < n; i++ {
		s := signers[r.IntN(len(signers))]
		switch x := r.IntN(100); {
		case x < 14:
			ops = append(ops, c12Op{Op: "AddRootKey", Signer: s, Key: c12RootPool[r.IntN(len(c12RootPool))]})
		case x < 22:
			ops = append(ops, c12Op{Op: "RemoveRootKey", Signer: s, Key: c12RootPool[r.IntN(len(c12RootPool))]})
		case x < 30:
			ops = append(ops, c12Op{Op: "UpdateRootThreshold", Signer: s, N: 1 + r.IntN(3)})
		case x < 42:
			ops = append(ops, c12Op{Op: "SignRoot", Signer: c12RootPool[r.IntN(len(c12RootPool))]})
		case x < 48:
			ops = append(ops, c12Op{Op: "AddGlobalRule", Signer: s, N: i})
		case x < 62:
			ops = append(ops, c12Op{Op: "StagePolicy"})
		case x < 78:
			ops = append(ops, c12Op{Op: "ApplyPolicy"})
		case x < 82:
			ops = append(ops, c12Op{Op: "DiscardPolicy"})
		case x < 90:
			ops = append(ops, c12Op{Op: "Push"})
		case x < 93:
			ops = append(ops, c12Op{Op: "TamperPolicyRef"})
		case x < 96:
			ops = append(ops, c12Op{Op: "TamperStagingRef"})
		default:
			ops = append(ops, c12Op{Op: "TamperPolicyEntry"})
		}
	}
	ops = append(ops, c12Op{Op: "StagePolicy"}, c12Op{Op: "ApplyPolicy"})
	return ops
}

type c12Model struct {
	stagedRoot map[string]bool
	stagedThr  int
	stagedSigs map[string]bool
	tampered   bool // policy / staging ref no longer matches its latest entry
}

func c12Run(c *fw.Ctx, ops []c12Op) {
	rsl.VerifResetCache()
	g, cleanup, err := newScratchGit(c, "c12")
	if err != nil {
		c.Inconclusive("git init")
		return
	}
	defer cleanup()
	api, err := gittuf.LoadRepository(g.Dir)
	if err != nil {
		c.Inconclusive("load repository")
		return
	}
	ctx := context.Background()
	keyDir := c.Scratch(fmt.Sprintf("c12keys-%d", scratchCounter.Add(1)))
	defer removeAll(keyDir)
	r1Path := keys.Get("r1").WriteFiles(keyDir)
	r1Signer, err := sslibssh.NewSignerFromFile(r1Path)
	if err != nil {
		c.Inconclusive("ssh signer: " + trunc(err.Error(), 60))
		return
	}
	if err := api.InitializeRoot(ctx, r1Signer, false); err != nil {
		c.Inconclusive("InitializeRoot: " + trunc(err.Error(), 60))
		return
	}
	m := &c12Model{stagedRoot: map[string]bool{"r1": true}, stagedThr: 1, stagedSigs: map[string]bool{"r1": true}}
	var mainTip githash.Hash
	pushes := 0
	pushedBeforePolicy := false // an entry for the branch exists that no policy precedes: full verification cannot judge it
	applied := false
	interesting := false
	refsOf := func() (string, string) {
		p, _ := g.GetReference(policy.PolicyRef)
		s, _ := g.GetReference(policy.PolicyStagingRef)
		return p.String(), s.String()
	}
	for i, op := range ops {
		c.Eval(1)
		cs := c12Case{Ops: ops[:i+1], At: i}
		stop := false
		c.Guard(cs, func() {
			signer := keys.DSSE{A: keys.Get(op.Signer)}
			polBefore, stBefore := refsOf()
			logBefore, _ := walkLogGit(g)
			rootOp := func(run func() error, mutate func()) {
				err := run()
				authorized := m.stagedRoot[op.Signer]
				_, stAfter := refsOf()
				switch {
				case !authorized && err == nil:
					c.Violation("root-change-by-non-root-signer-accepted", map[string]string{"op": op.Op}, fmt.Sprintf("%s by %s (not a root principal of the staged state %v) succeeded", op.Op, op.Signer, keysOf(m.stagedRoot)), cs)
					stop = true
				case !authorized && !errors.Is(err, gittuf.ErrUnauthorizedKey):
					c.Count("refused-with-other-error", 1)
					if stAfter != stBefore {
						c.Violation("refused-root-change-modified-staging", map[string]string{"op": op.Op}, "refused operation moved policy-staging", cs)
						stop = true
					}
				case !authorized:
					interesting = true
					if stAfter != stBefore {
						c.Violation("refused-root-change-modified-staging", map[string]string{"op": op.Op}, "refused operation moved policy-staging", cs)
						stop = true
					}
				case err == nil:
					mutate()
					m.stagedSigs = map[string]bool{op.Signer: true}
				default:
					// refused for a metadata reason (threshold cannot be met, ...): nothing may change
					if stAfter != stBefore {
						c.Violation("refused-root-change-modified-staging", map[string]string{"op": op.Op}, fmt.Sprintf("%s failed (%v) but policy-staging moved", op.Op, err), cs)
						stop = true
					}
				}
			}
			switch op.Op {
			case "AddRootKey":
				rootOp(func() error { return api.AddRootKey(ctx, signer, keys.Get(op.Key).KeyPrincipalV01(), false) }, func() { m.stagedRoot[op.Key] = true })
			case "RemoveRootKey":
				rootOp(func() error { return api.RemoveRootKey(ctx, signer, keys.Get(op.Key).KeyID, false) }, func() { delete(m.stagedRoot, op.Key) })
			case "UpdateRootThreshold":
				rootOp(func() error { return api.UpdateRootThreshold(ctx, signer, op.N, false) }, func() { m.stagedThr = op.N })
			case "AddGlobalRule":
				rootOp(func() error {
					return api.AddGlobalRuleThreshold(ctx, signer, fmt.Sprintf("g%d", op.N), []string{"git:refs/heads/none"}, 1, false)
				}, func() {})
			case "AddTopLevelTargetsKey":
				rootOp(func() error { return api.AddTopLevelTargetsKey(ctx, signer, keys.Get(op.Key).KeyPrincipalV01(), false) }, func() {})
			case "SignRoot":
				if err := api.SignRoot(ctx, signer, false); err == nil {
					m.stagedSigs[op.Signer] = true
				}
			case "InitializeTargets":
				if err := api.InitializeTargets(ctx, signer, policy.TargetsRoleName, false); err != nil {
					c.Inconclusive("InitializeTargets: " + trunc(err.Error(), 50))
					stop = true
				}
			case "AddPrincipalAndRule":
				k1 := keys.Get("k1").KeyPrincipalV01()
				if err := api.AddPrincipalToTargets(ctx, signer, policy.TargetsRoleName, []tufPrincipal{k1}, false); err != nil {
					c.Inconclusive("AddPrincipalToTargets: " + trunc(err.Error(), 50))
					stop = true
					return
				}
				if err := api.AddDelegation(ctx, signer, policy.TargetsRoleName, "protect-main", []string{k1.ID()}, []string{"git:" + refMain}, 1, false); err != nil {
					c.Inconclusive("AddDelegation: " + trunc(err.Error(), 50))
					stop = true
				}
			case "StagePolicy":
				if err := api.StagePolicy(ctx, "", true, false); err != nil && !m.tampered {
					c.Count("stage-failed", 1)
				}
			case "DiscardPolicy":
				err := api.DiscardPolicy()
				pol, st := refsOf()
				if err == nil && pol != st && pol != strings.Repeat("0", 40) {
					c.Violation("discard-did-not-restore-staging", nil, fmt.Sprintf("after DiscardPolicy staging is %s, policy is %s", st, pol), cs)
					stop = true
				}
				if err == nil {
					// staging now equals the applied state: the model of staged edits is reset to it
					stop = stop || false
					m.resetToApplied(g)
				}
			case "Push":
				var parents []githash.Hash
				if mainTip != nil {
					parents = []githash.Hash{mainTip}
				}
				cm, err := g.CommitFiles(map[string]string{"f": fmt.Sprint(pushes)}, parents, fmt.Sprintf("push %d", pushes), nil)
				if err != nil {
					c.Inconclusive("commit")
					return
				}
				mainTip = cm
				pushes++
				if polBefore == strings.Repeat("0", 40) {
					pushedBeforePolicy = true
				}
				_ = g.SetRef(refMain, cm)
				if _, err := scen.RecordEntry(g, refMain, cm, "k1"); err != nil {
					c.Inconclusive("record push")
				}
			case "TamperPolicyRef":
				if polBefore != strings.Repeat("0", 40) && mainTip != nil {
					_, _ = g.Run(nil, nil, "update-ref", policy.PolicyRef, stBefore)
					if stBefore != polBefore {
						m.tampered = true
					}
				}
			case "TamperStagingRef":
				if polBefore != strings.Repeat("0", 40) && stBefore != polBefore {
					// rewind staging to the applied policy without an entry
					_, _ = g.Run(nil, nil, "update-ref", policy.PolicyStagingRef, polBefore)
					m.tampered = true
				} else if polBefore == strings.Repeat("0", 40) && stBefore != strings.Repeat("0", 40) {
					// no policy applied yet: rewind staging by one commit without an entry
					if parent, err := g.Run(nil, nil, "rev-parse", "--verify", "-q", stBefore+"^"); err == nil && strings.TrimSpace(parent) != "" {
						_, _ = g.Run(nil, nil, "update-ref", policy.PolicyStagingRef, strings.TrimSpace(parent))
						m.tampered = true
						c.Count("tampered-staging-before-first-apply", 1)
					}
				}
			case "TamperPolicyEntry":
				if mainTip != nil && polBefore != strings.Repeat("0", 40) {
					// an entry for the policy ref naming a commit the ref is not at
					if _, err := scen.RecordEntry(g, policy.PolicyRef, mustHash(stBefore), "kx"); err == nil && stBefore != polBefore {
						m.tampered = true
					}
				}
			case "ApplyPolicy":
				err := api.ApplyPolicy(ctx, "", true, false)
				polAfter, stAfter := refsOf()
				logAfter, lerr := walkLogGit(g)
				if lerr != nil {
					c.Violation("log-corrupt", nil, lerr.Error(), cs)
					stop = true
					return
				}
				if err != nil {
					interesting = true
					if polAfter != polBefore {
						c.Violation("refused-apply-moved-policy", map[string]string{"error": trunc(err.Error(), 40)}, fmt.Sprintf("ApplyPolicy failed (%v) but refs/gittuf/policy moved", err), cs)
						stop = true
					}
					return
				}
				// refs vs their latest log entry, as they were when Apply started (independent walker)
				latest := map[string]string{}
				for _, e := range logBefore {
					if e.Kind == "reference" || e.Kind == "propagation" {
						latest[e.Ref] = e.Target
					}
				}
				zero := strings.Repeat("0", 40)
				mismatch := ""
				if polBefore != zero && latest[policy.PolicyRef] != polBefore {
					mismatch = fmt.Sprintf("refs/gittuf/policy was %s, its latest entry records %q", polBefore, latest[policy.PolicyRef])
				}
				if polBefore == zero && latest[policy.PolicyRef] != "" {
					mismatch = "refs/gittuf/policy is absent but has a log entry"
				}
				if stBefore != zero && latest[policy.PolicyStagingRef] != stBefore {
					mismatch = fmt.Sprintf("refs/gittuf/policy-staging was %s, its latest entry records %q", stBefore, latest[policy.PolicyStagingRef])
				}
				if mismatch != "" {
					c.Violation("apply-with-ref-entry-mismatch-accepted", nil, mismatch+"; ApplyPolicy succeeded", cs)
					stop = true
					return
				}
				// success
				if polAfter != stAfter {
					c.Violation("policy-not-at-staging-tip", nil, fmt.Sprintf("after Apply policy=%s staging=%s", polAfter, stAfter), cs)
					stop = true
					return
				}
				if polBefore != strings.Repeat("0", 40) && polAfter != polBefore {
					if anc, _ := g.KnowsCommit(mustHash(polAfter), mustHash(polBefore)); !anc {
						c.Violation("policy-not-descendant", nil, "applied policy does not descend from the previous policy state", cs)
						stop = true
						return
					}
				}
				newPolicyEntries := 0
				for _, e := range logAfter[len(logBefore):] {
					if e.Ref == policy.PolicyRef {
						newPolicyEntries++
						if e.Target != polAfter {
							c.Violation("policy-entry-names-other-commit", nil, "the policy entry written by Apply does not name the new policy tip", cs)
							stop = true
							return
						}
					}
				}
				if polAfter != polBefore && newPolicyEntries != 1 {
					c.Violation("policy-entry-count", map[string]string{"count": fmt.Sprint(newPolicyEntries)}, fmt.Sprintf("Apply moved the policy ref and wrote %d policy entries", newPolicyEntries), cs)
					stop = true
					return
				}
				applied = true
				interesting = interesting || polAfter != polBefore
				// writer/verifier agreement
				rsl.VerifResetCache()
				if _, lerr := policy.LoadCurrentState(ctx, g, policy.PolicyRef); lerr != nil {
					c.Violation("published-policy-rejected-by-verification", map[string]string{"by": "LoadCurrentState", "error": c12ErrClass(lerr)}, fmt.Sprintf("Apply succeeded, LoadCurrentState then fails: %v", lerr), cs)
					stop = true
					return
				}
				if pushes > 0 && pushedBeforePolicy {
					c.Count("branch-agreement-not-judged:entry-recorded-before-any-policy", 1)
				}
				if pushes > 0 && !pushedBeforePolicy {
					if _, verr := policy.NewPolicyVerifier(g).VerifyRefFull(ctx, refMain); verr != nil {
						c.Violation("published-policy-rejected-by-verification", map[string]string{"by": "VerifyRefFull", "error": c12ErrClass(verr)}, fmt.Sprintf("Apply succeeded, full verification of the protected branch then fails: %v", verr), cs)
						stop = true
						return
					}
				}
				c.Count("apply_ok_verified", 1)
			}
		})
		if stop {
			break
		}
	}
	_ = applied
	if interesting {
		c.Nontrivial(fw.Hash(ops))
	}
}

func c12ErrClass(err error) string {
	s := err.Error()
	switch {
	case strings.Contains(s, "unable to verify roots of trust"):
		return "roots-of-trust"
	case strings.Contains(s, "invalidly signed"):
		return "invalidly-signed"
	case errors.Is(err, policy.ErrVerificationFailed):
		return "verification-failed"
	}
	return trunc(s, 40)
}

// resetToApplied re-reads the staged root from the repository after a discard
// (the abstract model only needs the root principal set and threshold).
func (m *c12Model) resetToApplied(g *scen.Git) {
	st, err := policy.LoadCurrentState(context.Background(), g, policy.PolicyStagingRef, bypassRSL())
	if err != nil {
		return
	}
	rm, err := st.GetRootMetadata(false)
	if err != nil {
		return
	}
	prs, _ := rm.GetRootPrincipals()
	thr, _ := rm.GetRootThreshold()
	m.stagedRoot = map[string]bool{}
	for _, p := range prs {
		for _, k := range []string{"r1", "r2", "r3", "t1", "kx"} {
			if keys.Get(k).KeyID == p.ID() {
				m.stagedRoot[k] = true
			}
		}
	}
	m.stagedThr = thr
	m.stagedSigs = map[string]bool{}
	m.tampered = false
}

func runC12(c *fw.Ctx) {
	r := c.Rand(uint64(1200 + c.Shard))
	n := c.Pick(32, 400) / c.NShards
	if n < 2 {
		n = 2
	}
	// the two-step root rotation applied once (always included)
	if c.Shard == 0 {
		c12Run(c, []c12Op{
			{Op: "AddTopLevelTargetsKey", Signer: "r1", Key: "t1"}, {Op: "InitializeTargets", Signer: "t1"}, {Op: "AddPrincipalAndRule", Signer: "t1"},
			{Op: "StagePolicy"}, {Op: "ApplyPolicy"}, {Op: "Push"},
			{Op: "AddRootKey", Signer: "r1", Key: "r2"}, {Op: "RemoveRootKey", Signer: "r2", Key: "r1"},
			{Op: "StagePolicy"}, {Op: "ApplyPolicy"},
		})
	}
	for i := 0; i < n; i++ {
		ops := c12Gen(r)
		c12Run(c, ops)
		if i%4 == 0 {
			c.Sample(ops)
		}
	}
}

func replayC12(c *fw.Ctx, raw json.RawMessage) error {
	var cs c12Case
	if err := json.Unmarshal(raw, &cs); err != nil {
		return err
	}
	if len(cs.Ops) == 0 {
		var w struct {
			Case c12Case `json:"case"`
		}
		if err := json.Unmarshal(raw, &w); err == nil {
			cs = w.Case
		}
	}
	for i, op := range cs.Ops {
		fmt.Printf("  %d: %+v\n", i, op)
	}
	c12Run(c, cs.Ops)
	return nil
}

var _ = trustpolicyopts.WithRSLEntry
