package checks

import (
	"encoding/json"
	"fmt"
	"math/rand/v2"
	"strings"

	"github.com/gittuf/gittuf/internal/attestations"
	"github.com/gittuf/gittuf/internal/policy"
	"github.com/gittuf/gittuf/internal/signerverifier/dsse"
	"github.com/gittuf/gittuf/internal/verifharness/fw"
	"github.com/gittuf/gittuf/internal/verifharness/keys"
	"github.com/gittuf/gittuf/internal/verifharness/monitor"
	"github.com/gittuf/gittuf/internal/verifharness/scen"
	"github.com/gittuf/gittuf/pkg/githash"
	"github.com/gittuf/gittuf/pkg/rsl"
)

// C03 — recording keeps the RSL an append-only, consecutively numbered single chain.

func init() {
	fw.Register(&fw.Check{
		ID:    "C03",
		Level: "exploration",
		Rule: "random operation sequences (length 1-40) over {reference entry (arbitrary ref names incl. refs/gittuf/*, repeated targets), annotation (ids of entries / ordinary commits / blobs / trees / unknown ids; skip flag; messages with PEM markers, CRLF, NUL, empty), propagation entry, SkipAllInvalidReferenceEntriesForRef, State.Commit, policy.Apply, ReconcileStaging, Attestations.Commit}, from an empty, a numbered, or a legacy unnumbered log; a seeded fraction of operations runs with one injected storage fault. After every operation an independent walker checks the chain. " +
			"distinct = hash of the operation sequence; non-trivial = the sequence has >= 3 successful and >= 1 failed operation",
		Assumptions: []string{
			"sequential operations only (the concurrent case is C17)",
			"a real-git sample of the same sequences runs through the same walker (raw rev-list / cat-file)",
		},
		MinNontrivial: 500,
		Run:           runC03,
		Replay:        replayC03,
	})
}

type c03Op struct {
	Kind   string   `json:"kind"`
	Ref    string   `json:"ref,omitempty"`
	Target int      `json:"target,omitempty"` // index into the commit pool
	IDs    []string `json:"ids,omitempty"`    // annotation targets: "entry:<i>" | "commit:<i>" | "blob" | "tree" | "unknown"
	Skip   bool     `json:"skip,omitempty"`
	Msg    string   `json:"msg,omitempty"`
	Fault  int      `json:"fault,omitempty"` // 0 = none, else inject at this storage call
	Keys   []string `json:"keys,omitempty"`
}

type c03Case struct {
	Start string  `json:"start"`
	Ops   []c03Op `json:"ops"`
	At    int     `json:"at"`
}

var c03Refs = []string{"refs/heads/main", "refs/heads/feature/x", "refs/tags/v1", "refs/gittuf/policy", "refs/gittuf/policy-staging", "refs/gittuf/attestations", "refs/gittuf/custom", "refs/heads/ünï", "refs/notes/commits"}
var c03Msgs = []string{"", "plain", "-----BEGIN MESSAGE-----\nx\n-----END MESSAGE-----", "a\r\nb\r\n", "nul\x00byte", "skip: false\nnumber: 1"}

func c03Gen(r *rand.Rand, n int) []c03Op {
	ops := []c03Op{}
	for i := 0; i < n; i++ {
		var op c03Op
		switch x := r.IntN(100); {
		case x < 35:
			op = c03Op{Kind: "ref", Ref: c03Refs[r.IntN(len(c03Refs))], Target: r.IntN(4)}
		case x < 60:
			k := 1 + r.IntN(3)
			ids := []string{}
			for j := 0; j < k; j++ {
				switch y := r.IntN(10); {
				case y < 6:
					ids = append(ids, fmt.Sprintf("entry:%d", r.IntN(12)))
				case y < 7:
					ids = append(ids, fmt.Sprintf("commit:%d", r.IntN(4)))
				case y < 8:
					ids = append(ids, "blob")
				case y < 9:
					ids = append(ids, "tree")
				default:
					ids = append(ids, "unknown")
				}
			}
			op = c03Op{Kind: "annot", IDs: ids, Skip: r.IntN(2) == 0, Msg: c03Msgs[r.IntN(len(c03Msgs))]}
		case x < 68:
			op = c03Op{Kind: "prop", Ref: c03Refs[r.IntN(len(c03Refs))], Target: r.IntN(4)}
		case x < 74:
			op = c03Op{Kind: "skipall", Ref: c03Refs[r.IntN(3)]}
		case x < 82:
			op = c03Op{Kind: "stage", Keys: [][]string{{"k1"}, {"k1", "k2"}, {"k2", "k3"}}[r.IntN(3)]}
		case x < 90:
			op = c03Op{Kind: "apply"}
		case x < 94:
			op = c03Op{Kind: "reconcile"}
		default:
			op = c03Op{Kind: "attest", Target: r.IntN(4)}
		}
		if r.IntN(8) == 0 {
			op.Fault = 1 + r.IntN(12)
		}
		ops = append(ops, op)
	}
	return ops
}

type c03Env struct {
	b       *scen.Mem
	commits []githash.Hash // pool: 0,1,2 a chain; 3 unrelated root
	blob    githash.Hash
	tree    githash.Hash
}

func c03Start(start string) *c03Env {
	b := scen.NewMem()
	e := &c03Env{b: b}
	c0, _ := b.CommitFiles(map[string]string{"f": "0"}, nil, "c0", nil)
	c1, _ := b.CommitFiles(map[string]string{"f": "1"}, []githash.Hash{c0}, "c1", nil)
	c2, _ := b.CommitFiles(map[string]string{"f": "2"}, []githash.Hash{c1}, "c2", nil)
	c3, _ := b.CommitFiles(map[string]string{"g": "x"}, nil, "other root", nil)
	e.commits = []githash.Hash{c0, c1, c2, c3}
	e.blob, _ = b.WriteBlob([]byte("just a blob"))
	e.tree, _ = b.GetCommitTreeID(c0)
	switch start {
	case "numbered":
		for i := 0; i < 3; i++ {
			if err := rsl.NewReferenceEntry("refs/heads/main", e.commits[i]).Commit(b, false); err != nil {
				panic(err)
			}
		}
	case "legacy":
		for i := 0; i < 2; i++ {
			if err := rsl.NewReferenceEntry("refs/heads/main", e.commits[i]).CommitWithoutNumber(b); err != nil {
				panic(err)
			}
		}
	}
	return e
}

// resolve annotation targets; returns ids and whether every one denotes a
// well-formed RSL entry
func (e *c03Env) resolve(ids []string, log []walked) ([]githash.Hash, bool) {
	out := []githash.Hash{}
	allEntries := true
	for _, s := range ids {
		switch {
		case strings.HasPrefix(s, "entry:"):
			var i int
			fmt.Sscanf(s, "entry:%d", &i)
			if len(log) == 0 {
				allEntries = false
				out = append(out, githash.Hash(make([]byte, 20)))
				continue
			}
			h, _ := githash.NewHash(log[i%len(log)].ID)
			out = append(out, h)
		case strings.HasPrefix(s, "commit:"):
			var i int
			fmt.Sscanf(s, "commit:%d", &i)
			out = append(out, e.commits[i%len(e.commits)])
			allEntries = false
		case s == "blob":
			out = append(out, e.blob)
			allEntries = false
		case s == "tree":
			out = append(out, e.tree)
			allEntries = false
		default:
			h := make([]byte, 20)
			h[3] = 0x77
			out = append(out, githash.Hash(h))
			allEntries = false
		}
	}
	return out, allEntries
}

func c03Run(c *fw.Ctx, start string, ops []c03Op) {
	rsl.VerifResetCache()
	e := c03Start(start)
	okOps, failedOps := 0, 0
	for i, op := range ops {
		c.Eval(1)
		cs := c03Case{Start: start, Ops: ops[:i+1], At: i}
		stop := false
		c.Guard(cs, func() {
			before, berr := walkLogMem(e.b.Store)
			if berr != nil {
				stop = true
				return // already reported
			}
			prevTip, _ := e.b.GetReference(rsl.Ref)
			var store scen.Backend = e.b
			var inj *monitor.Injector
			if op.Fault > 0 {
				inj = monitor.NewInjector(op.Fault, "fault")
				store = monitor.Wrap(e.b, 0, inj)
			}
			e.b.SetSigner(nil)
			var (
				err         error
				wantEntries = -1 // exact number of appended entries on success; -1 = range check below
				mustFail    = false
				check       func(added []walked) string
			)
			switch op.Kind {
			case "ref":
				ent := rsl.NewReferenceEntry(op.Ref, e.commits[op.Target])
				err = ent.Commit(store, false)
				wantEntries = 1
				check = func(a []walked) string {
					if a[0].Kind != "reference" || a[0].Ref != op.Ref || a[0].Target != e.commits[op.Target].String() {
						return fmt.Sprintf("appended entry %+v does not name the requested ref/target", a[0])
					}
					if a[0].HasNum && a[0].Number != ent.Number {
						return fmt.Sprintf("entry reports number %d, the log says %d", ent.Number, a[0].Number)
					}
					return ""
				}
			case "prop":
				ent := rsl.NewPropagationEntry(op.Ref, e.commits[op.Target], "https://up.example/r", e.commits[3])
				err = ent.Commit(store, false)
				wantEntries = 1
				check = func(a []walked) string {
					if a[0].Kind != "propagation" || a[0].Ref != op.Ref || a[0].Target != e.commits[op.Target].String() {
						return fmt.Sprintf("appended entry %+v does not name the requested ref/target", a[0])
					}
					return ""
				}
			case "annot":
				ids, allEntries := e.resolve(op.IDs, before)
				mustFail = !allEntries
				ent := rsl.NewAnnotationEntry(ids, op.Skip, op.Msg)
				err = ent.Commit(store, false)
				wantEntries = 1
				check = func(a []walked) string {
					if a[0].Kind != "annotation" || a[0].Skip != op.Skip || len(a[0].IDs) != len(ids) {
						return fmt.Sprintf("appended annotation %+v does not match the request", a[0])
					}
					for k := range ids {
						if a[0].IDs[k] != ids[k].String() {
							return "annotation names other ids than requested"
						}
					}
					return ""
				}
			case "skipall":
				err = rsl.SkipAllInvalidReferenceEntriesForRef(store, op.Ref, false)
				check = func(a []walked) string {
					if len(a) > 1 {
						return fmt.Sprintf("automatic skip appended %d entries", len(a))
					}
					if len(a) == 1 {
						if a[0].Kind != "annotation" || !a[0].Skip {
							return "automatic skip appended something that is not a skip annotation"
						}
						for _, id := range a[0].IDs {
							found, sameRef := false, false
							for _, b := range before {
								if b.ID == id {
									found = true
									sameRef = b.Kind == "reference" && b.Ref == op.Ref
								}
							}
							if !found {
								return "automatic skip names an id that is not an earlier entry"
							}
							if !sameRef {
								// observed, not judged: C03 only requires annotation targets to be entries
								c.Count("observed:automatic_skip_named_entry_of_another_ref", 1)
							}
						}
					}
					return ""
				}
			case "stage":
				st, berr := polShape{Main: op.Keys, MainThr: 1, Rel: []string{"k1"}, RelThr: 1}.build().BuildState()
				if berr != nil {
					panic(berr)
				}
				err = st.Commit(store, "stage\n", true, false)
				wantEntries = 1
				check = func(a []walked) string {
					tip, _ := e.b.GetReference(policy.PolicyStagingRef)
					if a[0].Kind != "reference" || a[0].Ref != policy.PolicyStagingRef || a[0].Target != tip.String() {
						return fmt.Sprintf("staging entry %+v does not record the staging tip %s", a[0], tip.String())
					}
					return ""
				}
			case "apply":
				err = policy.Apply(scen.Ctx, store, false)
				check = func(a []walked) string {
					if len(a) < 1 || len(a) > 3 {
						return fmt.Sprintf("apply appended %d entries", len(a))
					}
					last := a[len(a)-1]
					tip, _ := e.b.GetReference(policy.PolicyRef)
					if last.Ref != policy.PolicyRef || last.Target != tip.String() {
						return fmt.Sprintf("last entry of apply %+v does not record the policy tip", last)
					}
					for _, x := range a[:len(a)-1] {
						if x.Ref != policy.PolicyStagingRef {
							return "apply appended an entry for an unexpected ref " + x.Ref
						}
					}
					return ""
				}
			case "reconcile":
				err = policy.ReconcileStaging(store, false)
				check = func(a []walked) string {
					if len(a) > 2 {
						return fmt.Sprintf("reconcile appended %d entries", len(a))
					}
					for _, x := range a {
						if x.Ref != policy.PolicyStagingRef {
							return "reconcile appended an entry for " + x.Ref
						}
					}
					return ""
				}
			case "attest":
				var atts *attestations.Attestations
				atts, err = attestations.LoadCurrentAttestations(store)
				if err == nil {
					from, to := e.commits[op.Target].String(), strings.Repeat("3", 40)
					stmt, _ := attestations.NewReferenceAuthorizationForCommit("refs/heads/main", from, to)
					env, _ := dsse.CreateEnvelope(stmt)
					env, _ = dsse.SignEnvelope(scen.Ctx, env, keys.DSSE{A: keys.Get("k1")})
					err = atts.SetReferenceAuthorization(store, env, "refs/heads/main", from, to)
					if err == nil {
						err = atts.Commit(store, "att\n", true, false)
					}
				}
				wantEntries = 1
				check = func(a []walked) string {
					tip, _ := e.b.GetReference(attestations.Ref)
					if a[0].Ref != attestations.Ref || a[0].Target != tip.String() {
						return "attestation entry does not record the attestations tip"
					}
					return ""
				}
			}
			after, aerr := walkLogMem(e.b.Store)
			attrs := map[string]string{"op": op.Kind, "faulted": fmt.Sprint(op.Fault > 0 && inj != nil && inj.Hit != nil), "start": start}
			if aerr != nil {
				c.Violation("chain-invariant-broken", attrs, fmt.Sprintf("after %s (err=%v): %v", op.Kind, err, aerr), cs)
				stop = true
				return
			}
			newTip, _ := e.b.GetReference(rsl.Ref)
			if !prevTip.IsZero() && !isAncestorMem(e.b.Store, newTip, prevTip) {
				c.Violation("earlier-tip-not-ancestor", attrs, fmt.Sprintf("after %s the previous log tip is no longer an ancestor of the tip", op.Kind), cs)
				stop = true
				return
			}
			added := after[len(before):]
			compound := op.Kind == "apply" || op.Kind == "reconcile"
			if err != nil {
				failedOps++
				if len(added) != 0 && !(compound && op.Fault > 0) {
					c.Violation("failed-operation-appended", attrs, fmt.Sprintf("%s failed (%v) but appended %d entries", op.Kind, err, len(added)), cs)
				}
				return
			}
			okOps++
			if mustFail {
				c.Violation("annotation-of-non-entry-accepted", map[string]string{"ids": strings.Join(c03IDClasses(op.IDs), ",")}, fmt.Sprintf("annotation naming %v was recorded although not every id denotes an RSL entry", op.IDs), cs)
				return
			}
			if wantEntries >= 0 && len(added) != wantEntries {
				c.Violation("wrong-number-of-entries", attrs, fmt.Sprintf("%s succeeded and appended %d entries, expected %d", op.Kind, len(added), wantEntries), cs)
				return
			}
			if check != nil && (len(added) > 0 || wantEntries < 0) {
				if msg := check(added); msg != "" {
					c.Violation("appended-entry-mismatch", attrs, msg, cs)
					return
				}
			}
			// every reader can walk the result
			if len(after) > 0 {
				if _, _, rerr := rsl.GetFirstEntry(e.b); rerr != nil && !(len(after) > 0 && after[0].Kind == "annotation") {
					first := false
					for _, x := range after {
						if x.Kind != "annotation" {
							first = true
						}
					}
					if first {
						c.Violation("reader-cannot-walk", attrs, "rsl.GetFirstEntry fails after "+op.Kind+": "+rerr.Error(), cs)
					}
				}
			}
			c.Count("ops_ok:"+op.Kind, 1)
		})
		if stop {
			return
		}
	}
	if okOps >= 3 && failedOps >= 1 {
		c.Nontrivial(fw.Hash(start, ops))
	}
}

func c03IDClasses(ids []string) []string {
	out := []string{}
	for _, s := range ids {
		out = append(out, strings.SplitN(s, ":", 2)[0])
	}
	return out
}

func runC03(c *fw.Ctx) {
	r := c.Rand(uint64(300 + c.Shard))
	n := c.Pick(3000, 100000) / c.NShards
	starts := []string{"empty", "numbered", "legacy"}
	for i := 0; i < n; i++ {
		ops := c03Gen(r, 1+r.IntN(40))
		start := starts[r.IntN(3)]
		c03Run(c, start, ops)
		if i%300 == 0 {
			c.Sample(map[string]any{"start": start, "ops": ops[:min(5, len(ops))]})
		}
	}
	// real git sample through the public recording API
	c03RealGit(c, c.Pick(40, 1000)/c.NShards+1)
	c03FaultPass(c, nil)
}

// c03FaultPass judges the clause "a failed operation appends none" under
// injected storage faults: every operation of C16's catalogue that appends
// exactly one entry when uninterrupted is run once per storage call index with
// that call failing; if the operation then reports an error the log must be
// exactly the log from before. Operations that append several entries are C16's
// business (each sub-step is an operation of its own there).
func c03FaultPass(c *fw.Ctx, only *c16Case) {
	idx := 0
	for _, op := range c16Ops() {
		for _, start := range []string{"empty", "first", "established"} {
			mine := c.Mine(idx)
			idx++
			if only != nil {
				mine = only.Op == op.Name && only.Start == start
			}
			if !mine {
				continue
			}
			base := c16Start(start)
			c16Prepare(op.Name, base)
			before := c16Snapshot(base)
			rsl.VerifResetCache()
			clean := base.CloneMem()
			tr := &monitor.Tracer{}
			if err := op.Run(monitor.Wrap(clean, 0, tr)); err != nil {
				continue // not applicable from this start
			}
			after := c16Snapshot(clean)
			if len(after.Log)-len(before.Log) != 1 {
				c.Count("fault-pass:operation-appends-"+fmt.Sprint(len(after.Log)-len(before.Log))+"-entries-not-judged", 1)
				continue
			}
			for k := 1; k <= len(tr.Calls); k++ {
				if only != nil && only.K != k {
					continue
				}
				cs := c16Case{Op: op.Name, Start: start, K: k, Mode: "fault", Call: tr.Calls[k-1].Method + "(" + tr.Calls[k-1].Arg + ")"}
				c.Eval(1)
				c.Guard(cs, func() {
					rsl.VerifResetCache()
					st := base.CloneMem()
					inj := monitor.NewInjector(k, "fault")
					err := op.Run(monitor.Wrap(st, 0, inj))
					got := c16Snapshot(st)
					if err == nil {
						c.Count("fault-pass:operation-succeeded-despite-fault", 1)
						return
					}
					if got.LogErr != "" || strings.Join(got.Log, "\n") != strings.Join(before.Log, "\n") {
						call := cs.Call
						if inj.Hit != nil {
							call = inj.Hit.Method + "(" + inj.Hit.Arg + ")"
						}
						c.Violation("failed-operation-appended", map[string]string{"op": op.Name, "start": start, "failing_call": call},
							fmt.Sprintf("%s from %s: storage call %d (%s) failed, the operation returned %v, and the log changed: %v -> %v %s", op.Name, start, k, call, err, before.Log, got.Log, got.LogErr), map[string]any{"fault_case": cs})
						return
					}
					c.Count("fault-pass:failed-and-appended-nothing", 1)
				})
			}
		}
	}
}

func replayC03(c *fw.Ctx, raw json.RawMessage) error {
	var cs c03Case
	if err := json.Unmarshal(raw, &cs); err != nil {
		return err
	}
	var fc struct {
		FaultCase *c16Case `json:"fault_case"`
	}
	if err := json.Unmarshal(raw, &fc); err == nil && fc.FaultCase != nil {
		fmt.Printf("  fault pass: %+v\n", *fc.FaultCase)
		c03FaultPass(c, fc.FaultCase)
		return nil
	}
	if len(cs.Ops) == 0 {
		var w struct {
			Case c03Case `json:"case"`
		}
		if err := json.Unmarshal(raw, &w); err == nil {
			cs = w.Case
		}
	}
	for i, op := range cs.Ops {
		fmt.Printf("  %d: %+v\n", i, op)
	}
	c03Run(c, cs.Start, cs.Ops)
	return nil
}
