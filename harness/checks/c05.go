package checks

import (
	"encoding/base64"
	"encoding/json"
	"errors"
	"fmt"
	"sort"

	"github.com/gittuf/gittuf/internal/policy"
	sslibdsse "github.com/gittuf/gittuf/internal/third_party/go-securesystemslib/dsse"
	"github.com/gittuf/gittuf/internal/verifharness/fw"
	"github.com/gittuf/gittuf/internal/verifharness/keys"
	"github.com/gittuf/gittuf/internal/verifharness/scen"
	"github.com/gittuf/gittuf/pkg/githash"
)

// C05 — thresholds count distinct trusted principals, each with a distinct valid key.
//
// Driver: a rule is written into a real policy state, loaded with
// LoadStateFromCommit, its SignatureVerifier obtained with
// FindVerifiersForPath and Verify(gitID, envelope) called directly.
// Oracle: V = distinct keys with a valid signature over exactly this Git
// object / payload (known from the scenario); M = maximum bipartite matching
// between the rule's principals and V.
//   soundness (always):   success => threshold >= 1, M >= threshold, returned ⊆ principals adjacent to V, |returned| <= M
//   exactness (no shared keys, all signatures correctly labelled): M >= threshold >= 1 => success
//   threshold < 1 or no principals => never success

func init() {
	fw.Register(&fw.Check{
		ID:    "C05",
		Level: "exploration",
		Rule: "rule shapes (1-4 principals, tuf Key or Person with 1-2 keys, ed25519 and ecdsa, with and without keys shared between principals, threshold 0..5) x Git-object signer {each trusted key, untrusted key, none} x envelope signature multisets {every subset of the keys in play, duplicates, untrusted keys, signatures lifted from another payload / payload type, empty or foreign keyid}. " +
			"Exhaustive core: 1-3 single-key principals x thresholds 0..4 x 5 git signers x 16 envelope subsets; the rest sampled. distinct = hash(rule shape, git signer, envelope signatures); non-trivial = at least one valid signature by a trusted key is present or the rule is malformed",
		Assumptions: []string{
			"the verifier under test is the one FindVerifiersForPath returns for the rule (policy without global rules)",
			"validity of a signature is known from how the scenario produced it, never from verifying it",
		},
		MinNontrivial: 1000,
		Exhaustive: func(tier string) (bool, string) {
			return true, "1-3 single-key principals x threshold 0..4 x git signer in {none,k1,k2,k3,kx} x all 16 subsets of envelope signers {k1,k2,k3,kx}"
		},
		Run:    runC05,
		Replay: replayC05,
	})
}

type c05Sig struct {
	Key    string `json:"key"`              // actor that produced the signature
	Lifted string `json:"lifted,omitempty"` // "" valid; "payload" / "type": computed over other content
	KeyID  string `json:"keyid,omitempty"`  // "" correct; "empty"; or actor name whose key id is claimed instead
}

type c05Case struct {
	Principals []scen.Principal `json:"principals"`
	Threshold  int              `json:"threshold"`
	GitSigner  string           `json:"git_signer"` // "" none
	Sigs       []c05Sig         `json:"sigs"`
	NoEnvelope bool             `json:"no_envelope,omitempty"`
}

func c05Actor(name string) *keys.Actor { return keys.ByName(name) }

const c05Payload = `{"_type":"https://in-toto.io/Statement/v1","subject":[],"predicateType":"x","predicate":{"n":1}}`
const c05OtherPayload = `{"_type":"https://in-toto.io/Statement/v1","subject":[],"predicateType":"x","predicate":{"n":2}}`
const c05Type = "application/vnd.gittuf+json"

var c05SigCache = map[string]string{}

func c05Sign(key, payloadType, payload string) string {
	k := key + "|" + payloadType + "|" + payload
	if s, ok := c05SigCache[k]; ok {
		return s
	}
	sig, err := keys.DSSE{A: c05Actor(key)}.Sign(scen.Ctx, sslibdsse.PAE(payloadType, []byte(payload)))
	if err != nil {
		panic(err)
	}
	s := base64.StdEncoding.EncodeToString(sig)
	c05SigCache[k] = s
	return s
}

func c05Envelope(cs c05Case) *sslibdsse.Envelope {
	if cs.NoEnvelope {
		return nil
	}
	env := &sslibdsse.Envelope{PayloadType: c05Type, Payload: base64.StdEncoding.EncodeToString([]byte(c05Payload)), Signatures: []sslibdsse.Signature{}}
	for _, s := range cs.Sigs {
		var sig string
		switch s.Lifted {
		case "payload":
			sig = c05Sign(s.Key, c05Type, c05OtherPayload)
		case "type":
			sig = c05Sign(s.Key, "application/vnd.other+json", c05Payload)
		default:
			sig = c05Sign(s.Key, c05Type, c05Payload)
		}
		kid := c05Actor(s.Key).KeyID
		switch s.KeyID {
		case "":
		case "empty":
			kid = ""
		default:
			kid = c05Actor(s.KeyID).KeyID
		}
		env.Signatures = append(env.Signatures, sslibdsse.Signature{KeyID: kid, Sig: sig})
	}
	return env
}

// c05Principal builds the tuf principal (actors may be ecdsa).
func c05RuleFile(cs c05Case) scen.RuleFile {
	ids := []string{}
	for _, p := range cs.Principals {
		ids = append(ids, p.ID)
	}
	// A second rule over the same path with its own principal (a key that never
	// signs anything here) and threshold: the rule under test must keep trusting
	// exactly its own principals whatever else matches the path.
	decoyP := scen.Principal{ID: "Pdecoy", Keys: []string{"kdecoy"}}
	decoyP.ID = keyPrincipal("kdecoy").ID
	rule := scen.Rule{Name: "rule", Patterns: []string{"git:refs/heads/main"}, Principals: ids, Threshold: cs.Threshold}
	decoy := scen.Rule{Name: "decoy", Patterns: []string{"git:refs/heads/*"}, Principals: []string{decoyP.ID}, Threshold: 1}
	rules := []scen.Rule{rule, decoy}
	if cs.Threshold%2 == 1 {
		rules = []scen.Rule{decoy, rule}
	}
	prs := append(append([]scen.Principal{}, cs.Principals...), keyPrincipal("kdecoy"))
	return scen.RuleFile{Name: "targets", Principals: prs, Signers: []string{"root"}, Rules: rules}
}

type c05Env struct {
	store   *scen.Mem
	commits map[string]githash.Hash // git signer -> commit
}

func newC05Env() *c05Env {
	e := &c05Env{store: scen.NewMem(), commits: map[string]githash.Hash{}}
	return e
}

func (e *c05Env) commit(signer string) githash.Hash {
	if id, ok := e.commits[signer]; ok {
		return id
	}
	var a *keys.Actor
	if signer != "" {
		a = c05Actor(signer)
	}
	id, err := e.store.CommitFiles(map[string]string{"f": "x"}, nil, "object signed by "+signer, a)
	if err != nil {
		panic(err)
	}
	e.commits[signer] = id
	return id
}

// verifier loads the rule through the real policy code and returns its verifier.
func (e *c05Env) verifier(cs c05Case) (*policy.SignatureVerifier, error) {
	p := scen.Policy{
		RootPrincipals: []scen.Principal{rootPrincipal}, RootThreshold: 1, RootSigners: []string{"root"},
		TargetsPrincipals: []scen.Principal{rootPrincipal}, TargetsThreshold: 1,
		Files: []scen.RuleFile{c05RuleFile(cs)},
	}
	st, err := p.BuildState()
	if err != nil {
		return nil, err
	}
	mdTree, err := st.Metadata.WriteTree(e.store)
	if err != nil {
		return nil, err
	}
	root, err := e.store.WriteTree([]treeEntry{{Path: "metadata", ID: mdTree, Kind: kindSubtree}})
	if err != nil {
		return nil, err
	}
	pc := e.store.CreateCommit(root, nil, "policy", nil)
	loaded, err := policy.LoadStateFromCommit(e.store, pc)
	if err != nil {
		return nil, err
	}
	vs, err := loaded.FindVerifiersForPath("git:refs/heads/main")
	if err != nil {
		return nil, err
	}
	for _, v := range vs {
		if v.Name() == "rule" {
			return v, nil
		}
	}
	return nil, fmt.Errorf("the rule under test is not among the %d verifiers for its path", len(vs))
}

// ----- oracle

func c05Oracle(cs c05Case) (validKeys map[string]bool, exactOK bool, m int, adjacent map[string]bool) {
	validKeys = map[string]bool{}
	exactOK = true
	if cs.GitSigner != "" && cs.GitSigner != "-" {
		validKeys[cs.GitSigner] = true
	}
	if !cs.NoEnvelope {
		for _, s := range cs.Sigs {
			if s.Lifted != "" {
				continue
			}
			if s.KeyID != "" && s.KeyID != "empty" {
				// valid signature under a foreign key id: may or may not be counted
				exactOK = false
				validKeys[s.Key] = true
				continue
			}
			validKeys[s.Key] = true
		}
	}
	// shared keys?
	owner := map[string]int{}
	for _, p := range cs.Principals {
		for _, k := range p.Keys {
			owner[k]++
		}
	}
	for _, n := range owner {
		if n > 1 {
			exactOK = false
		}
	}
	// the git signature credits a single principal and the envelope is not consulted
	// for it again: with a Person owning two keys (one on the object, one in the
	// envelope) the count is still one principal - matching handles that.
	adjacent = map[string]bool{}
	adj := map[string][]string{}
	for _, p := range cs.Principals {
		for _, k := range p.Keys {
			if validKeys[k] {
				adjacent[p.TufID()] = true
				adj[p.TufID()] = append(adj[p.TufID()], k)
			}
		}
	}
	// maximum bipartite matching (augmenting paths)
	matchKey := map[string]string{}
	var try func(p string, seen map[string]bool) bool
	try = func(p string, seen map[string]bool) bool {
		for _, k := range adj[p] {
			if seen[k] {
				continue
			}
			seen[k] = true
			if cur, ok := matchKey[k]; !ok || try(cur, seen) {
				matchKey[k] = p
				return true
			}
		}
		return false
	}
	ps := make([]string, 0, len(adj))
	for p := range adj {
		ps = append(ps, p)
	}
	sort.Strings(ps)
	for _, p := range ps {
		if try(p, map[string]bool{}) {
			m++
		}
	}
	return validKeys, exactOK, m, adjacent
}

func c05Judge(c *fw.Ctx, e *c05Env, v *policy.SignatureVerifier, cs c05Case) {
	c.Eval(1)
	validKeys, exactOK, m, adjacent := c05Oracle(cs)
	trustedValid := len(adjacent) > 0
	if trustedValid || cs.Threshold < 1 {
		c.Nontrivial(fw.Hash(cs))
	}
	c.Guard(cs, func() {
		var gitID githash.Hash
		if cs.GitSigner != "-" {
			gitID = e.commit(cs.GitSigner)
		}
		used, err := v.Verify(scen.Ctx, gitID, c05Envelope(cs))
		if err != nil && !errors.Is(err, policy.ErrVerifierConditionsUnmet) && !errors.Is(err, policy.ErrInvalidVerifier) {
			// any other error (e.g. the DSSE layer refusing an envelope without
			// signatures) is a rejection as far as the property is concerned; whether
			// the rejection is justified is decided below like for every other one
			c.Count("observed:rejected-with-other-error", 1)
		}
		success := err == nil
		c.Count(fmt.Sprintf("success=%v", success), 1)
		if success {
			if cs.Threshold < 1 || len(cs.Principals) == 0 {
				c.Violation("malformed-rule-satisfied", map[string]string{"threshold": fmt.Sprint(cs.Threshold)}, fmt.Sprintf("rule with threshold %d and %d principals was satisfied", cs.Threshold, len(cs.Principals)), cs)
				return
			}
			if m < cs.Threshold {
				c.Violation("threshold-overcount", map[string]string{"shared_keys": fmt.Sprint(!exactOK)}, fmt.Sprintf("satisfied with threshold %d although at most %d distinct principals hold a distinct valid key (valid keys %v)", cs.Threshold, m, keysOf(validKeys)), cs)
				return
			}
			ids := used.Contents()
			for _, id := range ids {
				if !adjacent[id] {
					c.Violation("credited-without-valid-signature", nil, fmt.Sprintf("principal %s credited but owns no key with a valid signature over this content", id), cs)
				}
			}
			if len(ids) > m {
				c.Violation("credited-more-than-matching", nil, fmt.Sprintf("%d principals credited, maximum matching is %d", len(ids), m), cs)
			}
			return
		}
		if exactOK && cs.Threshold >= 1 && len(cs.Principals) > 0 && m >= cs.Threshold {
			c.Violation("threshold-undercount", map[string]string{"git_signer_trusted": fmt.Sprint(validKeys[cs.GitSigner] && cs.GitSigner != "")}, fmt.Sprintf("rejected although %d >= %d distinct trusted principals signed (no shared keys): %v", m, cs.Threshold, err), cs)
		}
	})
}

func keysOf(m map[string]bool) []string {
	out := []string{}
	for k := range m {
		out = append(out, k)
	}
	sort.Strings(out)
	return out
}

func trunc(s string, n int) string {
	if len(s) > n {
		return s[:n]
	}
	return s
}

func runC05(c *fw.Ctx) {
	e := newC05Env()
	idx := 0
	// exhaustive core
	pool := []string{"k1", "k2", "k3"}
	envPool := []string{"k1", "k2", "k3", "kx"}
	for n := 1; n <= 3; n++ {
		prs := []scen.Principal{}
		for _, k := range pool[:n] {
			prs = append(prs, scen.Principal{ID: "P" + k, Keys: []string{k}})
		}
		for t := 0; t <= 4; t++ {
			mine := c.Mine(idx)
			idx++
			if !mine {
				continue
			}
			base := c05Case{Principals: prs, Threshold: t}
			v, err := e.verifier(base)
			if err != nil {
				c.Inconclusive("cannot load rule: " + trunc(err.Error(), 60))
				continue
			}
			for _, gs := range []string{"", "k1", "k2", "k3", "kx"} {
				for mask := 0; mask < 16; mask++ {
					cs := base
					cs.GitSigner = gs
					for i, k := range envPool {
						if mask&(1<<i) != 0 {
							cs.Sigs = append(cs.Sigs, c05Sig{Key: k})
						}
					}
					c05Judge(c, e, v, cs)
				}
			}
		}
	}
	// sampled shapes
	r := c.Rand(uint64(500 + c.Shard))
	nShapes := c.Pick(1600, 40000) / c.NShards
	perShape := c.Pick(40, 100)
	keyPool := []string{"k1", "k2", "k3", "k4", "k5", "e1", "e2"}
	for s := 0; s < nShapes; s++ {
		n := 1 + r.IntN(4)
		prs := []scen.Principal{}
		shared := r.IntN(3) == 0
		for i := 0; i < n; i++ {
			if r.IntN(2) == 0 {
				k := keyPool[r.IntN(len(keyPool))]
				dup := false
				for _, p := range prs {
					if !p.Person && p.Keys[0] == k {
						dup = true
					}
				}
				if dup {
					continue
				}
				prs = append(prs, scen.Principal{ID: "P" + k, Keys: []string{k}})
				continue
			}
			nk := 1 + r.IntN(2)
			ks := []string{}
			// bounded: with unshared keys the 7-key pool can be exhausted
			// (4 persons x 2 keys), the person then gets fewer keys or is dropped
			for tries := 0; len(ks) < nk && tries < 64; tries++ {
				k := keyPool[r.IntN(len(keyPool))]
				if !shared {
					used := false
					for _, p := range prs {
						for _, pk := range p.Keys {
							if pk == k {
								used = true
							}
						}
					}
					for _, pk := range ks {
						if pk == k {
							used = true
						}
					}
					if used {
						continue
					}
				} else {
					inSelf := false
					for _, pk := range ks {
						if pk == k {
							inSelf = true
						}
					}
					if inSelf {
						continue
					}
				}
				ks = append(ks, k)
			}
			if len(ks) == 0 {
				continue
			}
			prs = append(prs, scen.Principal{ID: fmt.Sprintf("person%d", i), Keys: ks, Person: true})
		}
		if len(prs) == 0 {
			continue
		}
		// a Key principal and a Person may not share a key unless shared
		base := c05Case{Principals: prs, Threshold: r.IntN(6)}
		v, err := e.verifier(base)
		if err != nil {
			c.Inconclusive("cannot load rule: " + trunc(err.Error(), 60))
			continue
		}
		inPlay := map[string]bool{"kx": true}
		for _, p := range prs {
			for _, k := range p.Keys {
				inPlay[k] = true
			}
		}
		play := keysOf(inPlay)
		for j := 0; j < perShape; j++ {
			cs := base
			switch r.IntN(4) {
			case 0:
				cs.GitSigner = []string{"", "-"}[r.IntN(2)] // unsigned object / no object at all
			default:
				cs.GitSigner = play[r.IntN(len(play))]
			}
			if r.IntN(12) == 0 {
				cs.NoEnvelope = true
			}
			ns := r.IntN(len(play) + 2)
			for q := 0; q < ns; q++ {
				sg := c05Sig{Key: play[r.IntN(len(play))]}
				switch r.IntN(10) {
				case 0:
					sg.Lifted = "payload"
				case 1:
					sg.Lifted = "type"
				case 2:
					sg.KeyID = "empty"
				case 3:
					sg.KeyID = play[r.IntN(len(play))]
					if sg.KeyID == sg.Key {
						sg.KeyID = ""
					}
				}
				cs.Sigs = append(cs.Sigs, sg)
			}
			c05Judge(c, e, v, cs)
		}
		if s%50 == 0 {
			c.Sample(base)
		}
	}
}

func replayC05(c *fw.Ctx, raw json.RawMessage) error {
	var cs c05Case
	if err := json.Unmarshal(raw, &cs); err != nil {
		return err
	}
	if len(cs.Principals) == 0 {
		var w struct {
			Case c05Case `json:"case"`
		}
		if err := json.Unmarshal(raw, &w); err == nil && len(w.Case.Principals) > 0 {
			cs = w.Case
		}
	}
	e := newC05Env()
	v, err := e.verifier(cs)
	if err != nil {
		return err
	}
	vk, exact, m, adj := c05Oracle(cs)
	fmt.Printf("case %+v\noracle: valid keys %v exact=%v matching=%d adjacent=%v\n", cs, keysOf(vk), exact, m, keysOf(adj))
	c05Judge(c, e, v, cs)
	return nil
}
