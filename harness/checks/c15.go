package checks

import (
	"context"
	"encoding/json"
	"fmt"
	"math/rand/v2"
	"sort"
	"strings"

	gittuf "github.com/gittuf/gittuf/experimental/gittuf"
	"github.com/gittuf/gittuf/internal/verifharness/fw"
	"github.com/gittuf/gittuf/internal/verifharness/scen"
	"github.com/gittuf/gittuf/pkg/githash"
	"github.com/gittuf/gittuf/pkg/rsl"
)

// C15 — reconcile and sync never drop, reorder, un-revoke or invent log entries.

func init() {
	fw.Register(&fw.Check{
		ID:    "C15",
		Level: "exploration",
		Rule: "pairs of logs with a shared prefix (2-4 entries) and local-only / remote-only suffixes (0-4 entries each) of reference entries, skip / plain annotations (targeting shared-prefix or local-only entries, one or two ids) and propagation entries, over disjoint or overlapping reference sets, on a bare remote and a local repository with an 'origin' remote; ReconcileLocalRSLWithRemote and Sync (overwrite on/off) through experimental/gittuf.Repository; local refs behind / equal / ahead / diverged. Oracle: raw-plumbing walker over both logs before and after. " +
			"distinct = hash of the scenario; non-trivial = both suffixes are non-empty, or the local suffix has an annotation or propagation entry",
		Assumptions: []string{
			"'same reference changed on both sides' is generated through reference entries only",
			"real git only (fetch/push semantics are git's)",
		},
		MinNontrivial: 30,
		Run:           runC15,
		Replay:        replayC15,
	})
}

type c15Entry struct {
	Kind    string `json:"kind"` // ref | annot | prop
	Ref     string `json:"ref,omitempty"`
	Commit  int    `json:"commit,omitempty"`
	Targets []int  `json:"targets,omitempty"` // annot: index into (shared ++ own suffix)
	Skip    bool   `json:"skip,omitempty"`
}

type c15Case struct {
	Shared    []c15Entry `json:"shared"`
	Local     []c15Entry `json:"local"`
	Remote    []c15Entry `json:"remote"`
	Op        string     `json:"op"` // reconcile | sync | sync-overwrite
	LocalRefs string     `json:"local_refs"`
}

var c15Refs = []string{"refs/heads/main", "refs/heads/a", "refs/heads/b", "refs/heads/c"}

func c15GenSuffix(r *rand.Rand, n int, base int, refs []string) []c15Entry {
	out := []c15Entry{}
	for i := 0; i < n; i++ {
		switch x := r.IntN(10); {
		case x < 6:
			out = append(out, c15Entry{Kind: "ref", Ref: refs[r.IntN(len(refs))], Commit: r.IntN(4)})
		case x < 9:
			// target any non-annotation entry so far (shared or own)
			cands := []int{}
			for j := 0; j < base; j++ {
				cands = append(cands, j)
			}
			for j, e := range out {
				if e.Kind != "annot" {
					cands = append(cands, base+j)
				}
			}
			t := []int{cands[r.IntN(len(cands))]}
			if r.IntN(3) == 0 {
				t2 := cands[r.IntN(len(cands))]
				if t2 != t[0] {
					t = append(t, t2)
				}
			}
			out = append(out, c15Entry{Kind: "annot", Targets: t, Skip: r.IntN(3) != 0})
		default:
			out = append(out, c15Entry{Kind: "prop", Ref: refs[r.IntN(len(refs))], Commit: r.IntN(4)})
		}
	}
	return out
}

func c15Gen(r *rand.Rand) c15Case {
	cs := c15Case{Op: []string{"reconcile", "reconcile", "reconcile", "sync", "sync-overwrite"}[r.IntN(5)]}
	nShared := 2 + r.IntN(3)
	for i := 0; i < nShared; i++ {
		cs.Shared = append(cs.Shared, c15Entry{Kind: "ref", Ref: c15Refs[r.IntN(len(c15Refs))], Commit: r.IntN(4)})
	}
	localRefs, remoteRefs := c15Refs[:2], c15Refs[2:]
	if r.IntN(4) == 0 {
		remoteRefs = c15Refs[1:] // overlap on refs/heads/a
	}
	cs.Local = c15GenSuffix(r, r.IntN(5), nShared, localRefs)
	cs.Remote = c15GenSuffix(r, r.IntN(5), nShared, remoteRefs)
	cs.LocalRefs = []string{"at-entry", "behind", "diverged"}[r.IntN(3)]
	return cs
}

type c15Repo struct {
	g       *scen.Git
	commits []githash.Hash
	ids     []githash.Hash // entry ids of shared ++ suffix in this repo
}

func c15Apply(repo *c15Repo, entries []c15Entry, setRefs bool) error {
	for _, e := range entries {
		switch e.Kind {
		case "ref":
			c := repo.commits[e.Commit]
			if setRefs {
				if err := repo.g.SetRef(e.Ref, c); err != nil {
					return err
				}
			}
			id, err := scen.RecordEntry(repo.g, e.Ref, c, "")
			if err != nil {
				return err
			}
			repo.ids = append(repo.ids, id)
		case "prop":
			c := repo.commits[e.Commit]
			if setRefs {
				if err := repo.g.SetRef(e.Ref, c); err != nil {
					return err
				}
			}
			if err := rsl.NewPropagationEntry(e.Ref, c, "https://upstream.example/r", repo.commits[0]).Commit(repo.g, false); err != nil {
				return err
			}
			id, _ := repo.g.GetReference(rsl.Ref)
			repo.ids = append(repo.ids, id)
		case "annot":
			ids := []githash.Hash{}
			for _, t := range e.Targets {
				ids = append(ids, repo.ids[t])
			}
			id, err := scen.Annotate(repo.g, ids, e.Skip, "note", "")
			if err != nil {
				return err
			}
			repo.ids = append(repo.ids, id)
		}
	}
	return nil
}

func skippedSet(log []walked) map[string]bool {
	out := map[string]bool{}
	for _, e := range log {
		if e.Kind == "annotation" && e.Skip {
			for _, id := range e.IDs {
				out[id] = true
			}
		}
	}
	return out
}

func c15Judge(c *fw.Ctx, cs c15Case) {
	c.Eval(1)
	rsl.VerifResetCache()
	dir := c.Scratch(fmt.Sprintf("c15-%d", scratchCounter.Add(1)))
	defer func() { _ = removeAll(dir) }()
	rg, err1 := scen.NewGit(dir+"/remote", true)
	lg, err2 := scen.NewGit(dir+"/local", true)
	if err1 != nil || err2 != nil {
		c.Inconclusive("git init")
		return
	}
	remote := &c15Repo{g: rg}
	// commit pool: 0 <- 1 <- 2 chain, 3 unrelated
	c0, _ := rg.CommitFiles(map[string]string{"f": "0"}, nil, "c0", nil)
	c1, _ := rg.CommitFiles(map[string]string{"f": "1"}, []githash.Hash{c0}, "c1", nil)
	c2, _ := rg.CommitFiles(map[string]string{"f": "2"}, []githash.Hash{c1}, "c2", nil)
	c3, _ := rg.CommitFiles(map[string]string{"g": "x"}, nil, "c3", nil)
	remote.commits = []githash.Hash{c0, c1, c2, c3}
	for i, cm := range remote.commits {
		_ = rg.SetRef(fmt.Sprintf("refs/heads/pool%d", i), cm)
	}
	if err := c15Apply(remote, cs.Shared, true); err != nil {
		c.Inconclusive("shared prefix: " + trunc(err.Error(), 60))
		return
	}
	// local = clone of the remote at the shared prefix
	if _, err := lg.Run(nil, nil, "remote", "add", "origin", rg.Dir); err != nil {
		c.Inconclusive("remote add")
		return
	}
	if _, err := lg.Run(nil, nil, "fetch", "-q", "origin", "+refs/heads/*:refs/heads/*", "+refs/gittuf/*:refs/gittuf/*"); err != nil {
		c.Inconclusive("fetch: " + trunc(err.Error(), 60))
		return
	}
	local := &c15Repo{g: lg, commits: remote.commits, ids: append([]githash.Hash{}, remote.ids...)}
	if err := c15Apply(remote, cs.Remote, true); err != nil {
		c.Inconclusive("remote suffix: " + trunc(err.Error(), 60))
		return
	}
	setLocalRefs := cs.LocalRefs == "at-entry"
	if err := c15Apply(local, cs.Local, setLocalRefs); err != nil {
		c.Inconclusive("local suffix: " + trunc(err.Error(), 60))
		return
	}
	if cs.LocalRefs == "diverged" {
		// a local commit the remote log knows nothing about, on a ref the remote suffix updates
		for _, e := range cs.Remote {
			if e.Kind == "ref" {
				d, _ := lg.CommitFiles(map[string]string{"local": "only"}, nil, "diverged", nil)
				_ = lg.SetRef(e.Ref, d)
				break
			}
		}
	}
	interesting := (len(cs.Local) > 0 && len(cs.Remote) > 0)
	for _, e := range cs.Local {
		if e.Kind != "ref" {
			interesting = true
		}
	}
	if interesting {
		c.Nontrivial(fw.Hash(cs))
	}
	api, err := gittuf.LoadRepository(lg.Dir)
	if err != nil {
		c.Inconclusive("load repository")
		return
	}
	localBefore, e1 := walkLogGit(lg)
	remoteLog, e2 := walkLogGit(rg)
	if e1 != nil || e2 != nil {
		c.Inconclusive("walker on setup")
		return
	}
	refsBefore := lg.Refs()
	// the actual common prefix (two suffixes that start with byte-identical entries are not diverged)
	nShared := 0
	for nShared < len(localBefore) && nShared < len(remoteLog) && localBefore[nShared].ID == remoteLog[nShared].ID {
		nShared++
	}
	localOnly := localBefore[nShared:]
	remoteOnly := remoteLog[nShared:]
	// overlap through reference entries
	lrefs, overlap := map[string]bool{}, false
	for _, e := range localOnly {
		if e.Kind == "reference" {
			lrefs[e.Ref] = true
		}
	}
	for _, e := range remoteOnly {
		if e.Kind == "reference" && lrefs[e.Ref] {
			overlap = true
		}
	}
	c.Guard(cs, func() {
		switch cs.Op {
		case "reconcile":
			err := api.ReconcileLocalRSLWithRemote(context.Background(), "origin", false)
			after, werr := walkLogGit(lg)
			if werr != nil {
				c.Violation("local-log-corrupt", map[string]string{"op": "reconcile"}, werr.Error(), cs)
				return
			}
			diverged := len(localOnly) > 0 && len(remoteOnly) > 0
			attrs := map[string]string{"op": "reconcile"}
			switch {
			case diverged && overlap:
				refsAfter := lg.Refs()
				delete(refsAfter, "refs/remotes/origin/gittuf/reference-state-log")
				delete(refsBefore, "refs/remotes/origin/gittuf/reference-state-log")
				if err == nil {
					c.Violation("overlap-not-refused", attrs, "both sides changed the same reference, reconcile returned nil", cs)
				} else if fmt.Sprint(refsAfter) != fmt.Sprint(refsBefore) {
					c.Violation("refused-reconcile-changed-state", attrs, "reconcile refused (overlapping refs) but references changed", cs)
				} else {
					c.Count("reconcile:overlap-refused", 1)
				}
			case diverged:
				if err != nil {
					c.Violation("reconcile-failed", map[string]string{"op": "reconcile", "error": trunc(err.Error(), 40)}, "disjoint divergence, reconcile failed: "+err.Error(), cs)
					return
				}
				c15CheckReplay(c, cs, after, remoteLog, localOnly, localBefore)
			case len(remoteOnly) > 0: // remote ahead
				if err != nil || !sameIDs(after, remoteLog) {
					c.Violation("fast-forward-wrong", attrs, fmt.Sprintf("remote is ahead: err=%v, local log has %d entries, remote %d", err, len(after), len(remoteLog)), cs)
				} else {
					c.Count("reconcile:fast-forward", 1)
				}
			default: // equal or local ahead: nothing changes
				if err != nil || !sameIDs(after, localBefore) {
					c.Violation("local-log-changed", attrs, fmt.Sprintf("nothing to reconcile: err=%v, log changed=%v", err, !sameIDs(after, localBefore)), cs)
				} else {
					c.Count("reconcile:noop", 1)
				}
			}
		default:
			overwrite := cs.Op == "sync-overwrite"
			_, err := api.Sync(context.Background(), "origin", overwrite, false)
			after, werr := walkLogGit(lg)
			if werr != nil {
				c.Violation("local-log-corrupt", map[string]string{"op": cs.Op}, werr.Error(), cs)
				return
			}
			refsAfter := lg.Refs()
			remoteAfter, _ := walkLogGit(rg)
			remoteRefsAfter := rg.Refs()
			attrs := map[string]string{"op": cs.Op}
			switch {
			case len(localOnly) == 0 && len(remoteOnly) > 0:
				// remote ahead: a local ref may move only to the target of its latest unskipped remote entry
				skipped := skippedSet(remoteLog)
				latest := map[string]string{}
				for _, e := range remoteLog {
					if (e.Kind == "reference" || e.Kind == "propagation") && !skipped[e.ID] {
						latest[e.Ref] = e.Target
					}
				}
				for ref, before := range refsBefore {
					if !strings.HasPrefix(ref, "refs/heads/") || strings.HasPrefix(ref, "refs/heads/pool") {
						continue
					}
					now := refsAfter[ref]
					if now == before {
						continue
					}
					if now != latest[ref] {
						c.Violation("ref-moved-to-unrecorded-state", attrs, fmt.Sprintf("%s moved from %s to %s, latest unskipped remote entry records %s", ref, before, now, latest[ref]), cs)
						return
					}
					if cs.LocalRefs == "diverged" && !overwrite {
						isAnc, _ := lg.KnowsCommit(mustHash(now), mustHash(before))
						if !isAnc {
							c.Violation("diverged-ref-overwritten", attrs, fmt.Sprintf("%s had diverged locally and was overwritten without being told to", ref), cs)
							return
						}
					}
				}
				if err == nil && !sameIDs(after, remoteLog) {
					c.Violation("fast-forward-wrong", attrs, "sync succeeded but the local log is not the remote log", cs)
					return
				}
				c.Count("sync:remote-ahead", 1)
			case len(localOnly) > 0 && len(remoteOnly) == 0:
				// local ahead: pushed together with the refs its unskipped entries name
				if err != nil {
					// The statement does not promise that a push succeeds (git refuses
					// e.g. a recorded rewind of a branch); it promises that entries are
					// not published without the references they name.
					if sameIDs(remoteAfter, remoteLog) {
						if cs.LocalRefs != "at-entry" {
							c.Count("sync:push-refused-refs-not-at-entry", 1)
						} else {
							c.Count("sync:push-refused-nothing-published", 1)
						}
						return
					}
					skipped := skippedSet(remoteAfter)
					latest := map[string]string{}
					for _, e := range remoteAfter[len(remoteLog):] {
						if e.Kind == "reference" && !skipped[e.ID] {
							latest[e.Ref] = e.Target
						}
					}
					for ref, tgt := range latest {
						if remoteRefsAfter[ref] != tgt {
							c.Violation("entries-published-without-their-refs", map[string]string{"op": cs.Op, "push": "failed-partially"}, fmt.Sprintf("sync failed (%s) yet the remote log gained %d entries; remote %s is %q, the published unskipped entry records %s", trunc(err.Error(), 60), len(remoteAfter)-len(remoteLog), ref, remoteRefsAfter[ref], tgt), cs)
							return
						}
					}
					c.Count("sync:push-error-but-consistent", 1)
					return
				}
				if !sameIDs(remoteAfter, localBefore) {
					c.Violation("remote-log-wrong-after-push", attrs, "sync pushed, remote log differs from the local log", cs)
					return
				}
				skipped := skippedSet(localBefore)
				latest := map[string]string{}
				for _, e := range localOnly {
					if e.Kind == "reference" && !skipped[e.ID] {
						latest[e.Ref] = e.Target
					}
				}
				for ref, tgt := range latest {
					if cs.LocalRefs == "at-entry" && remoteRefsAfter[ref] != tgt {
						c.Violation("entries-published-without-their-refs", attrs, fmt.Sprintf("remote %s is %s, the published unskipped entry records %s", ref, remoteRefsAfter[ref], tgt), cs)
						return
					}
				}
				c.Count("sync:local-ahead", 1)
			default:
				c.Count("sync:other", 1)
			}
		}
	})
}

func mustHash(s string) githash.Hash {
	h, _ := githash.NewHash(s)
	return h
}

func sameIDs(a, b []walked) bool {
	if len(a) != len(b) {
		return false
	}
	for i := range a {
		if a[i].ID != b[i].ID {
			return false
		}
	}
	return true
}

func c15CheckReplay(c *fw.Ctx, cs c15Case, after, remoteLog, localOnly, localBefore []walked) {
	attrs := map[string]string{"op": "reconcile"}
	if len(after) < len(remoteLog) || !sameIDs(after[:len(remoteLog)], remoteLog) {
		c.Violation("local-log-does-not-extend-remote", attrs, "after reconcile the local log does not start with the remote log", cs)
		return
	}
	replay := after[len(remoteLog):]
	if len(replay) != len(localOnly) {
		kinds := map[string]int{}
		for _, e := range localOnly {
			kinds[e.Kind]++
		}
		for _, e := range replay {
			kinds[e.Kind]--
		}
		lost := []string{}
		for k, n := range kinds {
			if n != 0 {
				lost = append(lost, k)
			}
		}
		sort.Strings(lost)
		c.Violation("local-only-entries-lost-or-invented", map[string]string{"op": "reconcile", "kinds": strings.Join(lost, "+")}, fmt.Sprintf("%d local-only entries, %d re-recorded", len(localOnly), len(replay)), cs)
		return
	}
	counterpart := map[string]string{}
	for i := range localOnly {
		counterpart[localOnly[i].ID] = replay[i].ID
	}
	for i := range localOnly {
		o, n := localOnly[i], replay[i]
		if o.Kind != n.Kind || o.Ref != n.Ref || o.Target != n.Target || o.Skip != n.Skip {
			c.Violation("replayed-entry-differs", map[string]string{"op": "reconcile", "kind": o.Kind}, fmt.Sprintf("local-only entry %d %+v re-recorded as %+v", i, o, n), cs)
			return
		}
		if o.Kind == "annotation" {
			for k, id := range o.IDs {
				want := id
				if cp, ok := counterpart[id]; ok {
					want = cp
				}
				if k >= len(n.IDs) || n.IDs[k] != want {
					c.Violation("annotation-refers-to-stale-entry", map[string]string{"op": "reconcile", "skip": fmt.Sprint(o.Skip)}, fmt.Sprintf("annotation %d referred to %s; after reconcile it refers to %v, expected %s (the re-recorded counterpart)", i, id[:8], n.IDs, want[:8]), cs)
					return
				}
			}
		}
	}
	// skipped status preserved per logical entry
	was, is := skippedSet(localBefore), skippedSet(after)
	for i := range localOnly {
		if localOnly[i].Kind == "reference" && was[localOnly[i].ID] != is[replay[i].ID] {
			c.Violation("revocation-not-preserved", map[string]string{"op": "reconcile", "was_skipped": fmt.Sprint(was[localOnly[i].ID])}, fmt.Sprintf("local-only entry %d was skipped=%v, its re-recorded counterpart is skipped=%v", i, was[localOnly[i].ID], is[replay[i].ID]), cs)
			return
		}
	}
	c.Count("reconcile:replay-ok", 1)
}

func runC15(c *fw.Ctx) {
	r := c.Rand(uint64(1500 + c.Shard))
	n := c.Pick(48, 800) / c.NShards
	if n < 2 {
		n = 2
	}
	for i := 0; i < n; i++ {
		cs := c15Gen(r)
		c15Judge(c, cs)
		if i%4 == 0 {
			c.Sample(cs)
		}
	}
	// directed: the local-only suffix records a rewind of a branch (a push that
	// git refuses as non-fast-forward) next to, or without, ordinary updates -
	// nothing may be published unless the references go with it
	idx := 0
	for _, op := range []string{"sync", "sync-overwrite"} {
		for _, local := range [][]c15Entry{
			{{Kind: "ref", Ref: "refs/heads/a", Commit: 0}},
			{{Kind: "ref", Ref: "refs/heads/main", Commit: 1}, {Kind: "ref", Ref: "refs/heads/a", Commit: 0}},
			{{Kind: "ref", Ref: "refs/heads/a", Commit: 0}, {Kind: "ref", Ref: "refs/heads/b", Commit: 1}},
			{{Kind: "ref", Ref: "refs/heads/a", Commit: 2}, {Kind: "ref", Ref: "refs/heads/main", Commit: 1}}, // fast-forwards only
		} {
			if c.Mine(idx) {
				c15Judge(c, c15Case{Op: op, LocalRefs: "at-entry",
					// commits 0 <- 1 <- 2 form a chain (3 is unrelated)
					Shared: []c15Entry{{Kind: "ref", Ref: "refs/heads/a", Commit: 1}, {Kind: "ref", Ref: "refs/heads/main", Commit: 0}},
					Local:  local})
			}
			idx++
		}
		// directed: an entry that carries a plain (non-skip) annotation is not revoked -
		// the reference goes to / is published with that entry's state
		shared := []c15Entry{{Kind: "ref", Ref: "refs/heads/a", Commit: 1}, {Kind: "ref", Ref: "refs/heads/main", Commit: 0}}
		for _, v := range []c15Case{
			{Op: op, LocalRefs: "at-entry", Shared: shared,
				Remote: []c15Entry{{Kind: "ref", Ref: "refs/heads/main", Commit: 1}, {Kind: "ref", Ref: "refs/heads/main", Commit: 2}, {Kind: "annot", Targets: []int{3}, Skip: false}}},
			{Op: op, LocalRefs: "at-entry", Shared: shared,
				Local: []c15Entry{{Kind: "ref", Ref: "refs/heads/a", Commit: 2}, {Kind: "annot", Targets: []int{2}, Skip: false}}},
			{Op: op, LocalRefs: "at-entry", Shared: shared,
				Remote: []c15Entry{{Kind: "ref", Ref: "refs/heads/main", Commit: 1}, {Kind: "ref", Ref: "refs/heads/main", Commit: 2}, {Kind: "annot", Targets: []int{3}, Skip: true}}},
		} {
			if c.Mine(idx) {
				c15Judge(c, v)
			}
			idx++
		}
	}
}

func replayC15(c *fw.Ctx, raw json.RawMessage) error {
	var cs c15Case
	if err := json.Unmarshal(raw, &cs); err != nil {
		return err
	}
	if len(cs.Shared) == 0 {
		var w struct {
			Case c15Case `json:"case"`
		}
		if err := json.Unmarshal(raw, &w); err == nil {
			cs = w.Case
		}
	}
	b, _ := json.MarshalIndent(cs, "", " ")
	fmt.Println(string(b))
	c15Judge(c, cs)
	return nil
}
