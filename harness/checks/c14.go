package checks

import (
	"bytes"
	"encoding/hex"
	"encoding/json"
	"fmt"
	"math/rand/v2"
	"reflect"
	"strings"

	"github.com/gittuf/gittuf/internal/verifharness/fw"
	"github.com/gittuf/gittuf/internal/verifharness/memstore"
	"github.com/gittuf/gittuf/pkg/githash"
	"github.com/gittuf/gittuf/pkg/rsl"
)

// C14 — RSL entry text and its parsed form determine each other.
//
// Oracles (no model of the parser, only relations on its boundary):
//  R1 write/read round trip: Entry.Commit on a store, then GetEntry, gives the same fields.
//  R2 idempotence: for every byte string, Parse either errors or returns e with
//     Parse(Canonical(e)) == e; never panics.
//  R3 must-reject: a valid text whose known fields were swapped, repeated or
//     dropped is rejected.
//  R4 single-valuedness: for an accepted text, every security-relevant field of
//     the result equals the value of the one line (harness's own line splitter)
//     carrying that key; a second line with that key means the text must have
//     been rejected.

func init() {
	fw.Register(&fw.Check{
		ID:    "C14",
		Level: "exploration",
		Rule: "cases = typed entries (3 kinds) committed and re-read; structured mutations of their canonical texts (swap/duplicate/drop/rename/case/whitespace/CR/number forms/second PEM block/unknown keys); " +
			"unstructured random bytes with and without a valid header. distinct = hash of the input text; non-trivial = the text was accepted by the parser, or is a structured mutation of a valid text (pure garbage rejected at the header line is counted in evaluations only)",
		Assumptions: []string{
			"memstore commit-message handling equals git's for the texts gittuf writes (trailing newline added, TrimSpace on read); a real-git sample of round trips runs in C03",
			"canonical text = rsl.VerifCanonicalText (build-tagged hook calling the unexported createCommitMessage(true))",
		},
		MinNontrivial: 2000,
		Run:           runC14,
		Replay:        replayC14,
	})
}

type c14Case struct {
	Kind  string         `json:"kind"` // roundtrip | text
	Text  string         `json:"text,omitempty"`
	Hex   string         `json:"hex,omitempty"`
	Why   string         `json:"why,omitempty"` // for must-reject mutations
	Must  string         `json:"must,omitempty"`
	Entry map[string]any `json:"entry,omitempty"`
}

func runC14(c *fw.Ctx) {
	r := c.Rand(uint64(1000 + c.Shard))
	total := c.Pick(300000, 20000000)
	per := total / c.NShards
	nRound := c.Pick(4000, 100000) / c.NShards
	// R1 round trips
	for i := 0; i < nRound; i++ {
		c14RoundTrip(c, r)
	}
	// R2-R4 on texts
	for i := 0; i < per; i++ {
		switch r.IntN(10) {
		case 0, 1, 2, 3, 4, 5:
			base, _ := c14ValidText(r)
			text, must, why := c14Mutate(r, base)
			c14CheckText(c, text, must, why, true)
		case 6, 7:
			base, gen := c14ValidText(r)
			c14CheckText(c, base, "accept", "canonical text of a generated entry", true)
			// R5: the canonical text of a recordable entry parses back to that entry
			c.Guard(c14Case{Kind: "text", Hex: hex.EncodeToString([]byte(base)), Why: "canonical text of a generated entry"}, func() {
				id := githash.Hash(bytes.Repeat([]byte{0x11}, 20))
				if e, err := rsl.ParseEntryText(id, base); err == nil {
					want, got := c14Fields(gen), c14Fields(e)
					delete(want, "id")
					delete(got, "id")
					if !reflect.DeepEqual(want, got) {
						c.Violation("canonical-text-loses-fields", map[string]string{"type": fmt.Sprint(want["type"])}, fmt.Sprintf("entry %v, written as canonical text and parsed, gives %v", want, got), c14Case{Kind: "text", Hex: hex.EncodeToString([]byte(base)), Entry: want})
					}
				}
			})
		case 8:
			c14CheckText(c, c14HeaderGarbage(r), "", "", false)
		default:
			n := r.IntN(120)
			b := make([]byte, n)
			for j := range b {
				b[j] = byte(r.IntN(256))
			}
			c14CheckText(c, string(b), "", "", false)
		}
	}
}

var c14Refs = []string{"refs/heads/main", "refs/heads/feature/x-1", "refs/tags/v1.0.0", "refs/gittuf/policy", "refs/gittuf/policy-staging", "refs/gittuf/attestations", "refs/heads/number", "refs/heads/skip", "refs/heads/ref", "refs/heads/a.b_c-d", "refs/heads/ünï", "refs/x"}

func c14Hash(r *rand.Rand, sha256 bool) githash.Hash {
	n := 20
	if sha256 {
		n = 32
	}
	b := make([]byte, n)
	for i := range b {
		b[i] = byte(r.IntN(256))
	}
	return githash.Hash(b)
}

func c14Message(r *rand.Rand) string {
	switch r.IntN(9) {
	case 0:
		return ""
	case 1:
		return "plain message"
	case 2:
		return "-----BEGIN MESSAGE-----\nfake\n-----END MESSAGE-----"
	case 3:
		return "line1\r\nline2\r\n"
	case 4:
		return "with\x00nul\x01ctl"
	case 5:
		return "skip: false\nnumber: 99\nentryID: " + strings.Repeat("a", 40)
	case 6:
		return []string{"\n\n  leading and trailing  \n\n", "\n", " ", "\r\n", "\t", "  \n  "}[r.IntN(6)]
	case 7:
		return "-----END MESSAGE-----"
	default:
		n := r.IntN(200)
		b := make([]byte, n)
		for i := range b {
			b[i] = byte(r.IntN(256))
		}
		return string(b)
	}
}

var c14Upstreams = []string{"https://example.com/org/repo", "git@example.com:org/repo.git", "ssh://git@host:2222/a/b", "file:///tmp/x y", "http://[::1]:8080/r", "a:b:c:d", "upstreamEntryID:x", "C:\\repos\\up"}

func c14Entry(r *rand.Rand) rsl.Entry {
	sha256 := r.IntN(4) == 0
	switch r.IntN(3) {
	case 0:
		return &rsl.ReferenceEntry{RefName: c14Refs[r.IntN(len(c14Refs))], TargetID: c14Hash(r, sha256), Number: c14Number(r)}
	case 1:
		n := 1 + r.IntN(4)
		ids := make([]githash.Hash, n)
		for i := range ids {
			ids[i] = c14Hash(r, sha256)
		}
		return &rsl.AnnotationEntry{RSLEntryIDs: ids, Skip: r.IntN(2) == 0, Message: c14Message(r), Number: c14Number(r)}
	default:
		return &rsl.PropagationEntry{RefName: c14Refs[r.IntN(len(c14Refs))], TargetID: c14Hash(r, sha256), UpstreamRepository: c14Upstreams[r.IntN(len(c14Upstreams))], UpstreamEntryID: c14Hash(r, sha256), Number: c14Number(r)}
	}
}

func c14Number(r *rand.Rand) uint64 {
	switch r.IntN(5) {
	case 0:
		return 0
	case 1:
		return 1
	case 2:
		return ^uint64(0)
	default:
		return uint64(r.IntN(100000))
	}
}

func c14ValidText(r *rand.Rand) (string, rsl.Entry) {
	e := c14Entry(r)
	t, err := rsl.VerifCanonicalText(e)
	if err != nil {
		panic(err)
	}
	return t, e
}

// c14Mutate returns a structured mutation. must is "reject" when the statement
// demands rejection (out of order / repeated / missing), "" otherwise.
func c14Mutate(r *rand.Rand, base string) (text, must, why string) {
	lines := strings.Split(base, "\n")
	// field lines are those from index 2 up to (excluding) the PEM block
	end := len(lines)
	for i, l := range lines {
		if l == rsl.BeginMessage {
			end = i
			break
		}
	}
	fields := lines[2:end]
	rest := lines[end:]
	keyOf := func(l string) string { k, _, _ := strings.Cut(l, ":"); return strings.TrimSpace(k) }
	rebuild := func(f []string) string {
		out := append([]string{lines[0], lines[1]}, f...)
		out = append(out, rest...)
		return strings.Join(out, "\n")
	}
	cp := append([]string{}, fields...)
	switch r.IntN(16) {
	case 0: // swap two fields with different keys
		if len(cp) >= 2 {
			i := r.IntN(len(cp))
			j := r.IntN(len(cp))
			if keyOf(cp[i]) != keyOf(cp[j]) {
				cp[i], cp[j] = cp[j], cp[i]
				return rebuild(cp), "reject", "fields out of order: " + keyOf(cp[i]) + " <-> " + keyOf(cp[j])
			}
		}
		return base, "accept", "unchanged"
	case 1: // duplicate a non-entryID field (adjacent or at end)
		i := r.IntN(len(cp))
		if keyOf(cp[i]) != rsl.EntryIDKey {
			dup := cp[i]
			if r.IntN(2) == 0 {
				// give the duplicate a different value where possible
				k, v, _ := strings.Cut(dup, ":")
				dup = k + ": " + c14AltValue(r, strings.TrimSpace(k), strings.TrimSpace(v))
			}
			pos := i + 1
			if r.IntN(2) == 0 {
				pos = len(cp)
			}
			cp = append(cp[:pos], append([]string{dup}, cp[pos:]...)...)
			return rebuild(cp), "reject", "field repeated: " + keyOf(dup)
		}
		return base, "accept", "unchanged"
	case 2: // drop a required field
		i := r.IntN(len(cp))
		k := keyOf(cp[i])
		if k == rsl.NumberKey {
			return base, "accept", "unchanged"
		}
		if k == rsl.EntryIDKey {
			cnt := 0
			for _, l := range cp {
				if keyOf(l) == rsl.EntryIDKey {
					cnt++
				}
			}
			if cnt > 1 {
				cp = append(cp[:i], cp[i+1:]...)
				return rebuild(cp), "", "dropped one of several entryIDs (still well formed)"
			}
		}
		cp = append(cp[:i], cp[i+1:]...)
		return rebuild(cp), "reject", "required field missing: " + k
	case 3: // duplicate at the very front (value seen first differs)
		i := r.IntN(len(cp))
		if keyOf(cp[i]) != rsl.EntryIDKey && i > 0 {
			k, v, _ := strings.Cut(cp[i], ":")
			dup := k + ": " + c14AltValue(r, strings.TrimSpace(k), strings.TrimSpace(v))
			cp = append([]string{dup}, cp...)
			return rebuild(cp), "reject", "field repeated/out of order: " + keyOf(dup)
		}
		return base, "accept", "unchanged"
	case 4: // key case change -> unknown key -> effectively missing
		i := r.IntN(len(cp))
		k, v, _ := strings.Cut(cp[i], ":")
		if k == rsl.NumberKey {
			cp[i] = strings.ToUpper(k) + ":" + v
			return rebuild(cp), "", "number key upper-cased (unknown key, ignored)"
		}
		if k == rsl.EntryIDKey {
			return base, "accept", "unchanged"
		}
		cp[i] = strings.ToUpper(k) + ":" + v
		return rebuild(cp), "reject", "required field missing (key case changed): " + k
	case 5: // unknown key inserted
		pos := r.IntN(len(cp) + 1)
		cp = append(cp[:pos], append([]string{"x-unknown: value:with:colons"}, cp[pos:]...)...)
		return rebuild(cp), "", "unknown key inserted"
	case 6: // whitespace variants around key/value
		i := r.IntN(len(cp))
		k, v, _ := strings.Cut(cp[i], ":")
		cp[i] = "  " + k + " \t:\t " + strings.TrimSpace(v) + "  "
		return rebuild(cp), "", "whitespace around key and value"
	case 7: // CRLF line endings
		return strings.ReplaceAll(base, "\n", "\r\n"), "", "CRLF line endings"
	case 8: // number forms
		forms := []string{"+1", "01", "18446744073709551616", "-1", "1e3", "0x10", " 7 ", "", "1 2", "٣"}
		f := forms[r.IntN(len(forms))]
		replaced := false
		for i := range cp {
			if keyOf(cp[i]) == rsl.NumberKey {
				cp[i] = rsl.NumberKey + ": " + f
				replaced = true
			}
		}
		if !replaced {
			cp = append(cp, rsl.NumberKey+": "+f)
		}
		return rebuild(cp), "", "number form " + f
	case 9: // second PEM block / stray PEM
		return base + "\n-----BEGIN MESSAGE-----\nc2Vjb25k\n-----END MESSAGE-----", "", "second PEM block appended"
	case 10: // header variants
		hv := []string{strings.ToLower(lines[0]), lines[0] + " ", " " + lines[0], lines[0] + "\r", lines[0] + " v2", "RSL Entry"}
		l2 := append([]string{hv[r.IntN(len(hv))]}, lines[1:]...)
		return strings.Join(l2, "\n"), "", "header variant"
	case 11: // blank line removed / doubled
		if r.IntN(2) == 0 {
			l2 := append([]string{lines[0]}, lines[2:]...)
			return strings.Join(l2, "\n"), "", "blank line after header removed"
		}
		l2 := append([]string{lines[0], "", ""}, lines[2:]...)
		return strings.Join(l2, "\n"), "", "blank line doubled"
	case 12: // field from another entry kind appended in the middle
		extra := []string{"upstreamRepository: https://evil", "entryID: " + strings.Repeat("b", 40), "skip: true", "ref: refs/heads/evil", "targetID: " + strings.Repeat("c", 40), "upstreamEntryID: " + strings.Repeat("d", 40)}
		pos := r.IntN(len(cp) + 1)
		cp = append(cp[:pos], append([]string{extra[r.IntN(len(extra))]}, cp[pos:]...)...)
		return rebuild(cp), "", "foreign/extra known field inserted"
	case 13: // hash forms
		i := r.IntN(len(cp))
		k, v, _ := strings.Cut(cp[i], ":")
		v = strings.TrimSpace(v)
		if len(v) == 40 || len(v) == 64 {
			forms := []string{strings.ToUpper(v), v[:len(v)-1], v + "0", "zz" + v[2:], v[:20], ""}
			cp[i] = k + ": " + forms[r.IntN(len(forms))]
			return rebuild(cp), "", "hash form"
		}
		return base, "accept", "unchanged"
	case 14: // truncate text at random byte
		if len(base) > 3 {
			return base[:r.IntN(len(base))], "", "truncated"
		}
		return base, "accept", "unchanged"
	default: // flip / insert random byte
		b := []byte(base)
		if len(b) == 0 {
			return base, "accept", "unchanged"
		}
		i := r.IntN(len(b))
		switch r.IntN(3) {
		case 0:
			b[i] = byte(r.IntN(256))
		case 1:
			b = append(b[:i], append([]byte{byte(r.IntN(256))}, b[i:]...)...)
		default:
			b = append(b[:i], b[i+1:]...)
		}
		return string(b), "", "byte-level mutation"
	}
}

func c14AltValue(r *rand.Rand, key, v string) string {
	switch key {
	case rsl.SkipKey:
		if v == "true" {
			return "false"
		}
		return "true"
	case rsl.NumberKey:
		return fmt.Sprint(r.IntN(1000) + 7)
	case rsl.RefKey:
		return "refs/heads/other"
	case rsl.UpstreamRepositoryKey:
		return "https://other.example/r"
	default:
		if len(v) == 64 {
			return strings.Repeat("e", 64)
		}
		return strings.Repeat("e", 40)
	}
}

func c14HeaderGarbage(r *rand.Rand) string {
	hdr := []string{rsl.ReferenceEntryHeader, rsl.AnnotationEntryHeader, rsl.PropagationEntryHeader}[r.IntN(3)]
	var b strings.Builder
	b.WriteString(hdr)
	b.WriteString("\n\n")
	keys := []string{"ref", "targetID", "number", "entryID", "skip", "upstreamRepository", "upstreamEntryID", "foo", "", rsl.BeginMessage, rsl.EndMessage}
	vals := []string{"refs/heads/main", strings.Repeat("a", 40), strings.Repeat("b", 64), "true", "false", "1", "2", "", "x:y", "0"}
	n := r.IntN(8)
	for i := 0; i < n; i++ {
		k := keys[r.IntN(len(keys))]
		if strings.HasPrefix(k, "-----") {
			b.WriteString(k + "\n")
			continue
		}
		b.WriteString(k + ": " + vals[r.IntN(len(vals))] + "\n")
	}
	return b.String()
}

func c14Fields(e rsl.Entry) map[string]any {
	switch e := e.(type) {
	case *rsl.ReferenceEntry:
		return map[string]any{"type": "reference", "id": e.ID.String(), "ref": e.RefName, "target": e.TargetID.String(), "number": e.Number}
	case *rsl.AnnotationEntry:
		ids := []string{}
		for _, i := range e.RSLEntryIDs {
			ids = append(ids, i.String())
		}
		return map[string]any{"type": "annotation", "id": e.ID.String(), "ids": ids, "skip": e.Skip, "message": hex.EncodeToString([]byte(e.Message)), "number": e.Number}
	case *rsl.PropagationEntry:
		return map[string]any{"type": "propagation", "id": e.ID.String(), "ref": e.RefName, "target": e.TargetID.String(), "upstream": e.UpstreamRepository, "upstreamEntry": e.UpstreamEntryID.String(), "number": e.Number}
	}
	return map[string]any{"type": fmt.Sprintf("%T", e)}
}

func c14CheckText(c *fw.Ctx, text, must, why string, structured bool) {
	c.Eval(1)
	cs := c14Case{Kind: "text", Hex: hex.EncodeToString([]byte(text)), Must: must, Why: why}
	id := githash.Hash(bytes.Repeat([]byte{0x11}, 20))
	c.Guard(cs, func() {
		e, err := rsl.ParseEntryText(id, text)
		if err != nil {
			c.Count("rejected", 1)
			if structured {
				c.Nontrivial(text)
			}
			if must == "accept" {
				c.Violation("canonical-rejected", map[string]string{"why": why}, "the parser rejected the canonical text of a recordable entry: "+err.Error(), cs)
			}
			return
		}
		if e == nil || reflect.ValueOf(e).IsNil() {
			c.Violation("nil-entry", nil, "parser returned nil entry and nil error", cs)
			return
		}
		c.Count("accepted", 1)
		c.Nontrivial(text)
		if must == "reject" {
			c.Violation("accepted-malformed", map[string]string{"mutation": strings.SplitN(why, ":", 2)[0], "type": fmt.Sprint(c14Fields(e)["type"])}, "text with "+why+" was accepted", cs)
		}
		// R2 idempotence
		canon, cerr := rsl.VerifCanonicalText(e)
		if cerr != nil {
			c.Violation("canonical-error", nil, "canonical text of an accepted entry cannot be produced: "+cerr.Error(), cs)
			return
		}
		e2, err2 := rsl.ParseEntryText(id, canon)
		if err2 != nil {
			c.Violation("not-idempotent", map[string]string{"how": "canonical rejected"}, "Parse(Canonical(e)) fails: "+err2.Error(), cs)
			return
		}
		f1, f2 := c14Fields(e), c14Fields(e2)
		if !reflect.DeepEqual(f1, f2) {
			c.Violation("not-idempotent", map[string]string{"how": "fields differ", "type": fmt.Sprint(f1["type"])}, fmt.Sprintf("Parse(Canonical(e)) != e: %v vs %v", f1, f2), cs)
		}
		// R4 single-valuedness against the harness's own line reader
		c14SingleValued(c, text, f1, cs)
	})
}

// c14SingleValued: own reader — split on \n, stop at a line that trims to the
// PEM begin marker, key = text before first ':' trimmed.
func c14SingleValued(c *fw.Ctx, text string, f map[string]any, cs c14Case) {
	lines := strings.Split(text, "\n")
	if len(lines) < 2 {
		return
	}
	vals := map[string][]string{}
	for _, l := range lines[2:] {
		l = strings.TrimSpace(l)
		if l == rsl.BeginMessage && f["type"] == "annotation" {
			break
		}
		k, v, ok := strings.Cut(l, ":")
		if !ok {
			continue
		}
		vals[strings.TrimSpace(k)] = append(vals[strings.TrimSpace(k)], strings.TrimSpace(v))
	}
	var keys map[string]string
	switch f["type"] {
	case "reference":
		keys = map[string]string{rsl.RefKey: "ref", rsl.TargetIDKey: "target", rsl.NumberKey: "number"}
	case "propagation":
		keys = map[string]string{rsl.RefKey: "ref", rsl.TargetIDKey: "target", rsl.UpstreamRepositoryKey: "upstream", rsl.UpstreamEntryIDKey: "upstreamEntry", rsl.NumberKey: "number"}
	case "annotation":
		keys = map[string]string{rsl.SkipKey: "skip", rsl.NumberKey: "number"}
		got := f["ids"].([]string)
		want := vals[rsl.EntryIDKey]
		if len(got) != len(want) {
			c.Violation("field-mismatch", map[string]string{"field": "entryID", "type": "annotation"}, fmt.Sprintf("annotation ids %v but the text carries %v", got, want), cs)
		} else {
			for i := range got {
				if !strings.EqualFold(got[i], want[i]) {
					c.Violation("field-mismatch", map[string]string{"field": "entryID", "type": "annotation"}, fmt.Sprintf("annotation ids %v but the text carries %v", got, want), cs)
					break
				}
			}
		}
	}
	for k, fname := range keys {
		vs := vals[k]
		if len(vs) > 1 {
			c.Violation("two-values-accepted", map[string]string{"field": k, "type": fmt.Sprint(f["type"])}, fmt.Sprintf("text with %d lines for key %q was accepted", len(vs), k), cs)
			continue
		}
		if len(vs) == 0 {
			if k != rsl.NumberKey {
				c.Violation("field-mismatch", map[string]string{"field": k, "type": fmt.Sprint(f["type"])}, "accepted text has no line for required key "+k, cs)
			} else if f["number"].(uint64) != 0 {
				c.Violation("field-mismatch", map[string]string{"field": k, "type": fmt.Sprint(f["type"])}, "number invented", cs)
			}
			continue
		}
		got := fmt.Sprint(f[fname])
		want := vs[0]
		ok := got == want
		switch fname {
		case "target", "upstreamEntry":
			ok = strings.EqualFold(got, want)
		case "number":
			ok = strings.TrimLeft(want, "0") == strings.TrimLeft(got, "0")
		}
		if !ok {
			c.Violation("field-mismatch", map[string]string{"field": k, "type": fmt.Sprint(f["type"])}, fmt.Sprintf("field %s parsed as %q but its only line says %q", k, got, want), cs)
		}
	}
}

func c14RoundTrip(c *fw.Ctx, r *rand.Rand) {
	c.Eval(1)
	st := memstore.New()
	// two base entries for annotations to point at
	base := []githash.Hash{}
	for i := 0; i < 2; i++ {
		e := rsl.NewReferenceEntry("refs/heads/base", c14Hash(r, false))
		if err := e.Commit(st, false); err != nil {
			c.Inconclusive("setup: " + err.Error())
			return
		}
		tip, _ := st.GetReference(rsl.Ref)
		base = append(base, tip)
	}
	want := c14Entry(r)
	var commit func() error
	switch e := want.(type) {
	case *rsl.ReferenceEntry:
		e.Number = 0
		commit = func() error { return e.Commit(st, false) }
	case *rsl.AnnotationEntry:
		e.Number = 0
		e.RSLEntryIDs = base[:1+r.IntN(2)]
		commit = func() error { return e.Commit(st, false) }
	case *rsl.PropagationEntry:
		e.Number = 0
		commit = func() error { return e.Commit(st, false) }
	}
	cs := c14Case{Kind: "roundtrip", Entry: c14Fields(want)}
	c.Guard(cs, func() {
		if err := commit(); err != nil {
			c.Violation("roundtrip-write-failed", map[string]string{"type": fmt.Sprint(c14Fields(want)["type"])}, "recording a valid entry failed: "+err.Error(), cs)
			return
		}
		got, err := rsl.GetLatestEntry(st)
		if err != nil {
			c.Violation("roundtrip-read-failed", map[string]string{"type": fmt.Sprint(c14Fields(want)["type"])}, "re-reading a recorded entry failed: "+err.Error(), cs)
			return
		}
		fw1, fg := c14Fields(want), c14Fields(got)
		delete(fw1, "id")
		delete(fg, "id")
		fw1["number"] = uint64(3)
		if !reflect.DeepEqual(fw1, fg) {
			c.Violation("roundtrip-mismatch", map[string]string{"type": fmt.Sprint(fw1["type"])}, fmt.Sprintf("wrote %v, read %v", fw1, fg), cs)
			return
		}
		c.Nontrivial("rt:" + fw.Hash(fw1))
		c.Count("roundtrips_ok", 1)
		if fg["type"] == "annotation" {
			c.Sample(map[string]any{"roundtrip": fg})
		}
	})
}

func replayC14(c *fw.Ctx, raw json.RawMessage) error {
	var w struct {
		Case c14Case `json:"case"`
		c14Case
	}
	if err := json.Unmarshal(raw, &w); err != nil {
		return err
	}
	cs := w.c14Case
	if cs.Hex == "" && w.Case.Hex != "" {
		cs = w.Case
	}
	if cs.Kind != "text" {
		return fmt.Errorf("only text cases are replayable; round-trip witnesses are self-describing: %v", cs.Entry)
	}
	b, err := hex.DecodeString(cs.Hex)
	if err != nil {
		return err
	}
	fmt.Printf("input text (%d bytes):\n%s\n---\n", len(b), string(b))
	e, perr := rsl.ParseEntryText(githash.Hash(bytes.Repeat([]byte{0x11}, 20)), string(b))
	fmt.Printf("parse: entry=%v err=%v\n", func() any {
		if perr != nil {
			return nil
		}
		return c14Fields(e)
	}(), perr)
	c14CheckText(c, string(b), cs.Must, cs.Why, true)
	return nil
}
