package checks

import (
	"encoding/base64"
	"encoding/json"
	"fmt"
	"math/rand/v2"
	"os/exec"
	"strings"

	"github.com/gittuf/gittuf/internal/attestations"
	"github.com/gittuf/gittuf/internal/policy"
	"github.com/gittuf/gittuf/internal/signerverifier/dsse"
	"github.com/gittuf/gittuf/internal/verifharness/fw"
	"github.com/gittuf/gittuf/internal/verifharness/keys"
	"github.com/gittuf/gittuf/internal/verifharness/scen"
	"github.com/gittuf/gittuf/pkg/githash"
	"github.com/gittuf/gittuf/pkg/gitstore"
	"github.com/gittuf/gittuf/pkg/rsl"
)

// C19 — mergeability predictions agree with verification of the predicted merge.
//
// Model-free: VerifyMergeable is asked once; then, on a copy of the
// repository per candidate recorder, the merge is recorded (fast-forward or a
// merge commit carrying the predicted tree) and fully verified.
//   (possible, no signature needed)  => every candidate verifies
//   (possible, signature needed)     => verifies  <=>  candidate is authorized and not already counted
//   (not possible)                   => no candidate verifies

func init() {
	fw.Register(&fw.Check{
		ID:    "C19",
		Level: "exploration",
		Rule: "policies (rule on main over 1-3 Person principals with threshold 1..3; optional file rule; optional matching global threshold rule; app trusted or absent) x prior approvals of the predicted change (reference authorization signed by any subset, code-review approval naming any subset) x feature histories (1-3 commits signed by various principals, touching protected / unprotected paths) x candidate recorders {each principal, outsider, unsigned} x {fast-forward, merge commit with the predicted tree}, on real git. " +
			"distinct = hash(scenario, candidate); non-trivial = the rule's threshold is >= 2 or approvals exist or a file / global rule is present",
		Assumptions: []string{
			"the feature branch descends from the target branch's tip (the predicted tree is the feature tip's tree); the branch's previous entry is unskipped and nothing intervenes",
			"'already counted' = the candidate signed the reference authorization or is named by the code-review approval",
		},
		MinNontrivial: 20,
		Run:           runC19,
		Replay:        replayC19,
	})
}

type c19Case struct {
	Trusted     []string `json:"trusted"`
	Threshold   int      `json:"threshold"`
	AuthSigners []string `json:"auth_signers"`
	ReviewNames []string `json:"review_approvers"` // keys whose identity the app's approval names
	App         bool     `json:"app"`
	FileRule    bool     `json:"file_rule"`
	FeatureBy   []string `json:"feature_commits_by"` // signer of each feature commit
	TouchProt   bool     `json:"touch_protected_path"`
	GlobalThr   int      `json:"global_threshold"` // 0 = none
	MergeCommit bool     `json:"merge_commit"`
	Candidate   string   `json:"candidate,omitempty"`
	// TouchEach: every feature commit changes the protected path (not only the
	// first), and the commits' ids ascend in creation order (commits of a range are
	// inspected in id order)
	TouchEach bool `json:"touch_each,omitempty"`
}

func c19Gen(r *rand.Rand) c19Case {
	all := []string{"k1", "k2", "k3"}
	n := 1 + r.IntN(3)
	cs := c19Case{Trusted: all[:n], Threshold: 1 + r.IntN(n), App: r.IntN(3) == 0, FileRule: r.IntN(4) == 0, MergeCommit: r.IntN(2) == 0}
	for _, k := range append(append([]string{}, cs.Trusted...), "kx") {
		if r.IntN(3) == 0 {
			cs.AuthSigners = append(cs.AuthSigners, k)
		}
	}
	if cs.App {
		for _, k := range cs.Trusted {
			if r.IntN(3) == 0 {
				cs.ReviewNames = append(cs.ReviewNames, k)
			}
		}
	}
	nf := 1 + r.IntN(3)
	for i := 0; i < nf; i++ {
		cs.FeatureBy = append(cs.FeatureBy, append(append([]string{}, cs.Trusted...), "kx")[r.IntN(len(cs.Trusted)+1)])
	}
	cs.TouchProt = r.IntN(2) == 0
	if r.IntN(4) == 0 {
		cs.GlobalThr = 1 + r.IntN(2)
	}
	return cs
}

func c19Policy(cs c19Case) scen.Policy {
	prs := []scen.Principal{}
	ids := []string{}
	for _, k := range cs.Trusted {
		prs = append(prs, scen.Principal{ID: "person-" + k, Keys: []string{k}, Person: true, Identities: map[string]string{c09App: identityOf(k)}})
		ids = append(ids, "person-"+k)
	}
	rules := []scen.Rule{{Name: "protect-main", Patterns: []string{"git:" + refMain}, Principals: ids, Threshold: cs.Threshold}}
	if cs.FileRule {
		rules = append(rules, scen.Rule{Name: "protect-src", Patterns: []string{"file:src/*"}, Principals: ids[:1], Threshold: 1})
	}
	p := scen.Policy{
		RootPrincipals: []scen.Principal{rootPrincipal}, RootThreshold: 1, RootSigners: []string{"root"},
		TargetsPrincipals: []scen.Principal{rootPrincipal}, TargetsThreshold: 1,
		Files: []scen.RuleFile{{Name: "targets", Principals: prs, Signers: []string{"root"}, Rules: rules}},
	}
	if cs.App {
		p.Apps = []scen.App{{Name: c09App, Key: "appkey", Trusted: true}}
	}
	if cs.GlobalThr > 0 {
		p.Globals = []scen.GlobalRule{{Kind: "threshold", Name: "min-approvals", Patterns: []string{"git:" + refMain}, Threshold: cs.GlobalThr}}
	}
	return p
}

func c19Judge(c *fw.Ctx, cs c19Case) {
	rsl.VerifResetCache()
	dir := c.Scratch(fmt.Sprintf("c19-%d", scratchCounter.Add(1)))
	defer removeAll(dir)
	g, err := scen.NewGit(dir+"/base", true)
	if err != nil {
		c.Inconclusive("git init")
		return
	}
	if err := scen.StageAndApply(g, c19Policy(cs), "root"); err != nil {
		c.Eval(1)
		c.Inconclusive("policy: " + trunc(err.Error(), 60))
		return
	}
	// main: one authorized base commit, approved by everybody so that it verifies whatever the threshold
	base, _ := g.CommitFiles(map[string]string{"README": "base", "src/a.go": "package a"}, nil, "base", keys.Get(cs.Trusted[0]))
	baseTree, _ := g.GetCommitTreeID(base)
	atts, _ := attestations.LoadCurrentAttestations(g)
	stmt, _ := attestations.NewReferenceAuthorizationForCommit(refMain, strings.Repeat("0", 40), baseTree.String())
	env, _ := dsse.CreateEnvelope(stmt)
	for _, k := range cs.Trusted {
		env, _ = dsse.SignEnvelope(scen.Ctx, env, keys.DSSE{A: keys.Get(k)})
	}
	_ = atts.SetReferenceAuthorization(g, env, refMain, strings.Repeat("0", 40), baseTree.String())
	g.SetSigner(nil)
	if err := atts.Commit(g, "base approval\n", true, false); err != nil {
		c.Inconclusive("base approval")
		return
	}
	_ = g.SetRef(refMain, base)
	if _, err := scen.RecordEntry(g, refMain, base, cs.Trusted[0]); err != nil {
		c.Inconclusive("base entry")
		return
	}
	// feature commits
	tip := base
	files := map[string]string{"README": "base", "src/a.go": "package a"}
	for i, by := range cs.FeatureBy {
		if cs.TouchProt && i == 0 {
			files["src/a.go"] = "package a // changed"
		}
		if cs.TouchEach {
			files["src/a.go"] = fmt.Sprintf("package a // changed by commit %d", i)
		}
		if !cs.TouchEach {
			// (with TouchEach a commit changes nothing but the protected path)
			files[fmt.Sprintf("docs/f%d.md", i)] = fmt.Sprint(i)
		}
		cm, err := g.CommitFiles(files, []githash.Hash{tip}, fmt.Sprintf("feature %d", i), keys.Get(by))
		for try := 0; cs.TouchEach && i > 0 && err == nil && try < 16 && cm.String() < tip.String(); try++ {
			cm, err = g.CommitFiles(files, []githash.Hash{tip}, fmt.Sprintf("feature %d (%d)", i, try), keys.Get(by))
		}
		if err != nil {
			c.Inconclusive("feature commit")
			return
		}
		tip = cm
	}
	_ = g.SetRef("refs/heads/feature", tip)
	if _, err := scen.RecordEntry(g, "refs/heads/feature", tip, "kx"); err != nil {
		c.Inconclusive("feature entry")
		return
	}
	mergeTree, err := g.GetCommitTreeID(tip)
	if err != nil {
		c.Inconclusive("tree")
		return
	}
	// prior approvals of the predicted change (main, base -> mergeTree)
	if len(cs.AuthSigners) > 0 || len(cs.ReviewNames) > 0 {
		entries := []gitstore.TreeEntry{}
		// keep the base approval in the tree
		cur, _ := g.GetReference(attestations.Ref)
		curTree, _ := g.GetCommitTreeID(cur)
		existing, _ := g.GetAllFilesInTree(curTree)
		for p, id := range existing {
			entries = append(entries, gitstore.TreeEntry{Path: p, ID: id, Kind: gitstore.KindBlob})
		}
		if len(cs.AuthSigners) > 0 {
			st, _ := attestations.NewReferenceAuthorizationForCommit(refMain, base.String(), mergeTree.String())
			e2, _ := dsse.CreateEnvelope(st)
			for _, k := range cs.AuthSigners {
				e2, _ = dsse.SignEnvelope(scen.Ctx, e2, keys.DSSE{A: keys.Get(k)})
			}
			blob, _ := json.Marshal(e2)
			id, _ := g.WriteBlob(blob)
			entries = append(entries, gitstore.TreeEntry{Path: "reference-authorizations/" + attestations.ReferenceAuthorizationPath(refMain, base.String(), mergeTree.String()), ID: id, Kind: gitstore.KindBlob})
		}
		if len(cs.ReviewNames) > 0 {
			names := []string{}
			for _, k := range cs.ReviewNames {
				names = append(names, identityOf(k))
			}
			st, _ := attestations.NewGitHubPullRequestApprovalAttestation(refMain, base.String(), mergeTree.String(), names, nil)
			e2, _ := dsse.CreateEnvelope(st)
			e2, _ = dsse.SignEnvelope(scen.Ctx, e2, keys.DSSE{A: keys.Get("appkey")})
			blob, _ := json.Marshal(e2)
			id, _ := g.WriteBlob(blob)
			entries = append(entries, gitstore.TreeEntry{Path: "code-review-approvals/" + attestations.GitHubPullRequestApprovalAttestationPath(refMain, base.String(), mergeTree.String()) + "/" + base64.URLEncoding.EncodeToString([]byte(c09App)), ID: id, Kind: gitstore.KindBlob})
		}
		tree, err := g.WriteTree(entries)
		if err != nil {
			c.Inconclusive("attestation tree")
			return
		}
		cid, err := g.Commit(tree, attestations.Ref, "approvals\n", false)
		if err != nil {
			c.Inconclusive("attestation commit")
			return
		}
		if err := rsl.NewReferenceEntry(attestations.Ref, cid).Commit(g, false); err != nil {
			c.Inconclusive("attestation entry")
			return
		}
	}
	// the prediction
	rsl.VerifResetCache()
	needSig, perr := policy.NewPolicyVerifier(g).VerifyMergeable(scen.Ctx, refMain, "refs/heads/feature")
	prediction := "possible-no-signature"
	switch {
	case perr != nil:
		prediction = "not-possible"
	case needSig:
		prediction = "possible-signature-needed"
	}
	c.Count("prediction:"+prediction, 1)
	counted := map[string]bool{}
	for _, k := range cs.AuthSigners {
		counted[k] = true
	}
	for _, k := range cs.ReviewNames {
		counted[k] = true
	}
	trusted := map[string]bool{}
	for _, k := range cs.Trusted {
		trusted[k] = true
	}
	nontrivial := cs.Threshold >= 2 || len(cs.AuthSigners)+len(cs.ReviewNames) > 0 || cs.FileRule || cs.GlobalThr > 0
	for _, cand := range append(append([]string{}, cs.Trusted...), "kx", "") {
		c.Eval(1)
		cc := cs
		cc.Candidate = cand
		if nontrivial {
			c.Nontrivial(fw.Hash(cc))
		}
		c.Guard(cc, func() {
			cp := fmt.Sprintf("%s/cand-%s", dir, strings.ReplaceAll(cand+"_", "/", ""))
			if out, err := exec.Command("cp", "-r", g.Dir, cp).CombinedOutput(); err != nil {
				c.Inconclusive("copy: " + string(out))
				return
			}
			_ = exec.Command("cp", "-r", g.Dir+"-keys", cp+"-keys").Run()
			defer removeAll(cp)
			gc, err := scen.OpenGit(cp)
			if err != nil {
				c.Inconclusive("open copy")
				return
			}
			target := tip
			if cs.MergeCommit {
				m, err := gc.CommitTree(mergeTree, []githash.Hash{base, tip}, "merge feature", nil)
				if err != nil {
					c.Inconclusive("merge commit")
					return
				}
				target = m
			}
			_ = gc.SetRef(refMain, target)
			if _, err := scen.RecordEntry(gc, refMain, target, cand); err != nil {
				c.Inconclusive("record merge")
				return
			}
			rsl.VerifResetCache()
			_, verr := policy.NewPolicyVerifier(gc).VerifyRefFull(scen.Ctx, refMain)
			accepted := verr == nil
			var want bool
			switch prediction {
			case "possible-no-signature":
				want = true
			case "possible-signature-needed":
				want = trusted[cand] && !counted[cand]
			default:
				want = false
			}
			if accepted != want {
				class := "outsider"
				switch {
				case cand == "":
					class = "unsigned"
				case trusted[cand] && counted[cand]:
					class = "authorized-already-counted"
				case trusted[cand]:
					class = "authorized-not-counted"
				}
				attrs := map[string]string{"prediction": prediction, "candidate": class, "verified": fmt.Sprint(accepted), "rule_threshold_is_one": fmt.Sprint(cs.Threshold == 1)}
				if cs.Threshold != 1 {
					attrs["global_threshold_set"] = fmt.Sprint(cs.GlobalThr > 0)
				}
				c.Violation("prediction-disagrees-with-verification", attrs,
					fmt.Sprintf("VerifyMergeable said %s (err=%v); merge recorded by %q (%s) verifies=%v (%v)", prediction, perr, cand, class, accepted, verr), cc)
			} else {
				c.Count("agree:"+prediction, 1)
			}
		})
	}
}

func runC19(c *fw.Ctx) {
	r := c.Rand(uint64(1900 + c.Shard))
	n := c.Pick(32, 500) / c.NShards
	if n < 2 {
		n = 2
	}
	for i := 0; i < n; i++ {
		cs := c19Gen(r)
		c19Judge(c, cs)
		if i%3 == 0 {
			c.Sample(cs)
		}
	}
	// directed: approvals meet the branch rule exactly while a global threshold asks
	// for one principal more; feature histories mixing an authorized and an
	// unauthorized commit under the same file rule (in both orders)
	all := []string{"k1", "k2", "k3"}
	directed := []c19Case{
		{Trusted: all, Threshold: 2, AuthSigners: []string{"k1", "k2"}, GlobalThr: 3, FeatureBy: []string{"k1"}},
		{Trusted: all, Threshold: 1, AuthSigners: []string{"k1"}, GlobalThr: 2, FeatureBy: []string{"k2"}, MergeCommit: true},
		{Trusted: all, Threshold: 2, AuthSigners: []string{"k1", "k2"}, GlobalThr: 2, FeatureBy: []string{"k1"}},
		{Trusted: all, Threshold: 1, AuthSigners: []string{"k2"}, FileRule: true, TouchProt: true, TouchEach: true, FeatureBy: []string{"k1", "kx"}},
		{Trusted: all, Threshold: 1, AuthSigners: []string{"k2"}, FileRule: true, TouchProt: true, TouchEach: true, FeatureBy: []string{"kx", "k1"}},
		{Trusted: all, Threshold: 1, AuthSigners: []string{"k2"}, FileRule: true, TouchProt: true, TouchEach: true, FeatureBy: []string{"k1", "kx", "k1"}, MergeCommit: true},
		{Trusted: all, Threshold: 1, AuthSigners: []string{"k2"}, FileRule: true, TouchProt: true, TouchEach: true, FeatureBy: []string{"k1", "k1", "kx"}},
		{Trusted: all, Threshold: 1, AuthSigners: []string{"k2"}, FileRule: true, TouchProt: true, TouchEach: true, FeatureBy: []string{"kx", "k1", "kx"}},
	}
	for i, cs := range directed {
		if c.Mine(i) {
			c19Judge(c, cs)
		}
	}
}

func replayC19(c *fw.Ctx, raw json.RawMessage) error {
	var cs c19Case
	if err := json.Unmarshal(raw, &cs); err != nil {
		return err
	}
	if len(cs.Trusted) == 0 {
		var w struct {
			Case c19Case `json:"case"`
		}
		if err := json.Unmarshal(raw, &w); err == nil {
			cs = w.Case
		}
	}
	b, _ := json.MarshalIndent(cs, "", " ")
	fmt.Println(string(b))
	c19Judge(c, cs)
	return nil
}
