package checks

import (
	"encoding/json"
	"fmt"
	"sort"
	"strings"
	"time"

	"github.com/gittuf/gittuf/internal/attestations"
	"github.com/gittuf/gittuf/internal/cache"
	"github.com/gittuf/gittuf/internal/policy"
	"github.com/gittuf/gittuf/internal/signerverifier/dsse"
	"github.com/gittuf/gittuf/internal/verifharness/fw"
	"github.com/gittuf/gittuf/internal/verifharness/keys"
	"github.com/gittuf/gittuf/internal/verifharness/memstore"
	"github.com/gittuf/gittuf/internal/verifharness/monitor"
	"github.com/gittuf/gittuf/internal/verifharness/scen"
	"github.com/gittuf/gittuf/pkg/githash"
	"github.com/gittuf/gittuf/pkg/rsl"
)

// C16 — a storage failure at any step leaves log valid and managed refs consistent.
//
// Complete enumeration: operation x start state x every index k of the Storer
// calls the uninterrupted run makes x {fault, abandon}.

func init() {
	fw.Register(&fw.Check{
		ID:    "C16",
		Level: "fault_enumeration",
		Rule: "operations {reference entry, annotation, propagation entry, State.Commit with and without RSL entry, policy.Apply, ReconcileStaging (policy ahead / diverged), Attestations.Commit, persistent-cache commit} x start states {empty repository, repository with a log but no policy/attestations yet (first-ever commit), established repository} x every index k of the storage-interface calls of the uninterrupted run (measured by a tracer) x {k-th call returns an error, operation abandoned right after the k-th call}. " +
			"distinct = (operation, start, k, mode); non-trivial = the k-th call is a write, or a read that precedes a write of the same operation",
		Assumptions: []string{
			"faults are injected at the gitstore.Storer boundary on the in-memory Storer (complete for every k); a crash inside one storage call is delegated to git's own lock-file atomicity",
			"'equivalent final state' = same sequence of (entry kind, ref, tree of target) in the log and same tree at every gittuf-managed ref",
		},
		MinNontrivial: 100,
		MaxShards:     8,
		Exhaustive: func(tier string) (bool, string) {
			return true, "every storage-call index of every (operation, start state) pair, both fault and abandon"
		},
		Run:    runC16,
		Replay: replayC16,
	})
}

type c16Op struct {
	Name string
	Run  func(b scen.Backend) error
}

type c16Case struct {
	Op    string `json:"op"`
	Start string `json:"start"`
	K     int    `json:"k"`
	Mode  string `json:"mode"`
	Call  string `json:"call,omitempty"`
}

func c16Policy(keysMain []string) scen.Policy {
	return polShape{Main: keysMain, MainThr: 1, Rel: []string{"k1"}, RelThr: 1}.build()
}

// start states
func c16Start(name string) *scen.Mem {
	b := scen.NewMem()
	b.Store.Tick = false
	switch name {
	case "empty":
	case "first":
		c, _ := b.CommitFiles(map[string]string{"f": "0"}, nil, "c0", nil)
		_ = b.SetRef(refScratch, c)
		if _, err := scen.RecordEntry(b, refScratch, c, ""); err != nil {
			panic(err)
		}
	case "established":
		if err := scen.StageAndApply(b, c16Policy([]string{"k1"}), "root"); err != nil {
			panic(err)
		}
		c, _ := b.CommitFiles(map[string]string{"f": "1"}, nil, "c1", nil)
		_ = b.SetRef(refMain, c)
		if _, err := scen.RecordEntry(b, refMain, c, "k1"); err != nil {
			panic(err)
		}
		h := &scen.History{}
		_ = h
		atts, _ := attestations.LoadCurrentAttestations(b)
		stmt, _ := attestations.NewReferenceAuthorizationForCommit(refMain, c.String(), strings.Repeat("1", 40))
		env, _ := dsse.CreateEnvelope(stmt)
		env, _ = dsse.SignEnvelope(scen.Ctx, env, keys.DSSE{A: keys.Get("k1")})
		if err := atts.SetReferenceAuthorization(b, env, refMain, c.String(), strings.Repeat("1", 40)); err != nil {
			panic(err)
		}
		b.SetSigner(nil)
		if err := atts.Commit(b, "att", true, false); err != nil {
			panic(err)
		}
	case "established-policy-ahead", "established-diverged":
		if err := scen.StageAndApply(b, c16Policy([]string{"k1"}), "root"); err != nil {
			panic(err)
		}
		if name == "established-diverged" {
			st, _ := c16Policy([]string{"k1", "k2"}).BuildState()
			b.SetSigner(nil)
			if err := st.Commit(b, "staged change\n", true, false); err != nil {
				panic(err)
			}
		}
		// a change lands directly in the policy ref (as controller propagation does)
		if _, err := scen.RawPolicyEntry(b, c16Policy([]string{"k1", "k3"}), ""); err != nil {
			panic(err)
		}
	}
	b.SetSigner(nil)
	return b
}

func c16Ops() []c16Op {
	return []c16Op{
		{"reference-entry", func(b scen.Backend) error {
			return rsl.NewReferenceEntry("refs/heads/feature", githash.Hash(make([]byte, 20))).Commit(b, false)
		}},
		{"annotation", func(b scen.Backend) error {
			tip, err := b.GetReference(rsl.Ref)
			if err != nil {
				return fmt.Errorf("precondition: %w", err)
			}
			return rsl.NewAnnotationEntry([]githash.Hash{tip}, true, "msg").Commit(b, false)
		}},
		{"propagation-entry", func(b scen.Backend) error {
			return rsl.NewPropagationEntry("refs/heads/feature", githash.Hash(make([]byte, 20)), "https://up", githash.Hash(make([]byte, 20))).Commit(b, false)
		}},
		{"state-commit-with-entry", func(b scen.Backend) error {
			st, err := c16Policy([]string{"k1", "k4"}).BuildState()
			if err != nil {
				return err
			}
			return st.Commit(b, "stage\n", true, false)
		}},
		{"state-commit-without-entry", func(b scen.Backend) error {
			st, err := c16Policy([]string{"k1", "k4"}).BuildState()
			if err != nil {
				return err
			}
			return st.Commit(b, "stage\n", false, false)
		}},
		{"stage-then-apply", func(b scen.Backend) error {
			// the staged state is part of the start of this operation: only Apply is faulted
			return policy.Apply(scen.Ctx, b, false)
		}},
		{"reconcile-staging", func(b scen.Backend) error {
			return policy.ReconcileStaging(b, false)
		}},
		{"attestations-commit", func(b scen.Backend) error {
			atts, err := attestations.LoadCurrentAttestations(b)
			if err != nil {
				return err
			}
			stmt, err := attestations.NewReferenceAuthorizationForCommit(refMain, strings.Repeat("0", 40), strings.Repeat("2", 40))
			if err != nil {
				return err
			}
			env, err := dsse.CreateEnvelope(stmt)
			if err != nil {
				return err
			}
			env, err = dsse.SignEnvelope(scen.Ctx, env, keys.DSSE{A: keys.Get("k2")})
			if err != nil {
				return err
			}
			if err := atts.SetReferenceAuthorization(b, env, refMain, strings.Repeat("0", 40), strings.Repeat("2", 40)); err != nil {
				return err
			}
			return atts.Commit(b, "att\n", true, false)
		}},
		{"cache-populate", func(b scen.Backend) error {
			return cache.PopulatePersistentCache(b)
		}},
	}
}

// preparation applied to the start state before a given operation (not faulted)
func c16Prepare(op string, b *scen.Mem) {
	if op == "stage-then-apply" {
		st, err := c16Policy([]string{"k1", "k4"}).BuildState()
		if err != nil {
			panic(err)
		}
		b.SetSigner(nil)
		if err := st.Commit(b, "stage\n", true, false); err != nil {
			panic(err)
		}
	}
}

var c16Managed = []string{policy.PolicyRef, policy.PolicyStagingRef, attestations.Ref}

type c16State struct {
	Log     []string          // kind|ref|tree-of-target
	Managed map[string]string // ref -> tree id ("" absent)
	RawRefs map[string]string
	LogErr  string
	LogLen  int
	Latest  map[string]string // managed ref -> target of its latest log entry
}

func c16Snapshot(b *scen.Mem) c16State {
	s := c16State{Managed: map[string]string{}, Latest: map[string]string{}, RawRefs: b.Refs()}
	log, err := walkLogMem(b.Store)
	if err != nil {
		s.LogErr = err.Error()
	}
	s.LogLen = len(log)
	for _, e := range log {
		tree := ""
		if e.Target != "" {
			if h, herr := githash.NewHash(e.Target); herr == nil {
				if t, terr := b.GetCommitTreeID(h); terr == nil {
					tree = t.String()
				}
			}
		}
		s.Log = append(s.Log, fmt.Sprintf("%s|%s|%s|%d", e.Kind, e.Ref, tree, len(e.IDs)))
		if e.Kind != "annotation" {
			s.Latest[e.Ref] = e.Target
		}
	}
	for _, r := range c16Managed {
		if id, ok := s.RawRefs[r]; ok {
			h, _ := githash.NewHash(id)
			if t, err := b.GetCommitTreeID(h); err == nil {
				s.Managed[r] = t.String()
			} else {
				s.Managed[r] = "?" + id
			}
		}
	}
	return s
}

func (s c16State) equivalent(o c16State) bool {
	if strings.Join(s.Log, "\n") != strings.Join(o.Log, "\n") {
		return false
	}
	for _, r := range c16Managed {
		if s.Managed[r] != o.Managed[r] {
			return false
		}
	}
	return true
}

func c16Verdicts(b *scen.Mem) map[string]string {
	out := map[string]string{}
	for _, ref := range []string{refMain, refScratch, "refs/heads/feature"} {
		_, err := policy.NewPolicyVerifier(b.CloneMem()).VerifyRefFull(scen.Ctx, ref)
		out[ref] = errClass(err)
	}
	return out
}

func runC16(c *fw.Ctx) {
	idx := 0
	for _, op := range c16Ops() {
		starts := []string{"empty", "first", "established"}
		if op.Name == "reconcile-staging" {
			starts = []string{"established", "established-policy-ahead", "established-diverged"}
		}
		if op.Name == "stage-then-apply" {
			starts = []string{"empty", "first", "established", "established-policy-ahead", "established-diverged"}
		}
		for _, start := range starts {
			mine := c.Mine(idx)
			idx++
			if !mine {
				continue
			}
			c16Enumerate(c, op, start, -1, "")
		}
	}
}

func c16Enumerate(c *fw.Ctx, op c16Op, start string, onlyK int, onlyMode string) {
	base := c16Start(start)
	c16Prepare(op.Name, base)
	before := c16Snapshot(base)
	beforeVerdicts := c16Verdicts(base)
	// uninterrupted run (cold process cache, like every faulted run below, so that
	// call indices line up)
	rsl.VerifResetCache()
	clean := base.CloneMem()
	tr := &monitor.Tracer{}
	cleanErr := op.Run(monitor.Wrap(clean, 0, tr))
	if cleanErr != nil {
		// the operation is not applicable in this start state (e.g. annotation on an empty log)
		c.NotJudged(fmt.Sprintf("%s not applicable from %s", op.Name, start))
		c.Note("not_applicable:"+op.Name+"/"+start, cleanErr.Error())
		return
	}
	n := len(tr.Calls)
	after := c16Snapshot(clean)
	afterVerdicts := c16Verdicts(clean)
	c.SetAdd("call_sequences", tr.Signature())
	c.Note(fmt.Sprintf("calls:%s/%s", op.Name, start), n)
	firstWrite := n + 1
	lastWrite := 0
	for i, cl := range tr.Calls {
		if cl.Write {
			if i+1 < firstWrite {
				firstWrite = i + 1
			}
			lastWrite = i + 1
		}
	}
	for k := 1; k <= n; k++ {
		if onlyK > 0 && k != onlyK {
			continue
		}
		for _, mode := range []string{"fault", "abandon"} {
			if onlyMode != "" && mode != onlyMode {
				continue
			}
			c.Eval(1)
			cs := c16Case{Op: op.Name, Start: start, K: k, Mode: mode, Call: tr.Calls[k-1].Method + "(" + tr.Calls[k-1].Arg + ")"}
			if tr.Calls[k-1].Write || k <= lastWrite {
				c.Nontrivial(fw.Hash(cs.Op, cs.Start, cs.K, cs.Mode))
			}
			c.Guard(cs, func() {
				rsl.VerifResetCache()
				st := base.CloneMem()
				inj := monitor.NewInjector(k, mode)
				wrapped := monitor.Wrap(st, 0, inj)
				attrs := map[string]string{"op": op.Name, "start": start, "call": tr.Calls[k-1].Method + "(" + tr.Calls[k-1].Arg + ")", "mode": mode}
				if mode == "fault" {
					err := op.Run(wrapped)
					if inj.Hit != nil {
						attrs["call"] = inj.Hit.Method + "(" + inj.Hit.Arg + ")"
						cs.Call = attrs["call"]
					}
					got := c16Snapshot(st)
					c16CheckFault(c, cs, attrs, op, st, err, before, after, got)
					return
				}
				// abandon
				done := make(chan error, 1)
				go func() { done <- op.Run(wrapped) }()
				select {
				case <-inj.Parked:
				case err := <-done:
					c.Inconclusive("abandon point not reached")
					_ = err
					return
				case <-time.After(120 * time.Second):
					c.Inconclusive("abandon: watchdog")
					return
				}
				got := c16Snapshot(st)
				if got.LogErr != "" {
					c.Violation("log-corrupt-after-crash", attrs, "after the process stops dead right after "+cs.Call+": "+got.LogErr, cs)
					return
				}
				rsl.VerifResetCache()
				v := c16Verdicts(st)
				for ref, verdict := range v {
					if verdict != beforeVerdicts[ref] && verdict != afterVerdicts[ref] {
						a := map[string]string{"op": op.Name, "start": start, "call": attrs["call"], "mode": mode, "ref": ref}
						c.Violation("verdict-neither-before-nor-after", a, fmt.Sprintf("crash right after %s: verification of %s says %s; before the operation %s, after it %s", cs.Call, ref, verdict, beforeVerdicts[ref], afterVerdicts[ref]), cs)
					}
				}
				c.Count("abandon:checked", 1)
			})
		}
	}
	c.Sample(map[string]any{"op": op.Name, "start": start, "storage_calls": n, "first_write": firstWrite, "last_write": lastWrite, "log_before": before.Log, "log_after": after.Log})
}

func c16CheckFault(c *fw.Ctx, cs c16Case, attrs map[string]string, op c16Op, st *scen.Mem, err error, before, after, got c16State) {
	if got.LogErr != "" {
		c.Violation("log-corrupt-after-fault", attrs, "log is no longer a valid chain: "+got.LogErr, cs)
		return
	}
	if err == nil {
		if !got.equivalent(after) {
			c.Violation("fault-swallowed", attrs, fmt.Sprintf("the %d-th storage call failed, the operation reported success, but the final state differs from an uninterrupted run:\nlog %v\nwant %v\nrefs %v want %v", cs.K, got.Log, after.Log, got.Managed, after.Managed), cs)
		} else {
			c.Count("fault:success-equivalent", 1)
		}
		return
	}
	// failed: no new entry
	// a compound operation may have completed earlier sub-steps (each a complete
	// entry); the log must still extend the previous one and never be rewritten
	if len(got.Log) < len(before.Log) || strings.Join(got.Log[:len(before.Log)], "\n") != strings.Join(before.Log, "\n") {
		c.Violation("failed-operation-rewrote-log", attrs, fmt.Sprintf("operation failed (%v) and the log no longer extends the previous one: %v -> %v", err, before.Log, got.Log), cs)
		return
	}
	if len(got.Log) > len(before.Log) {
		c.Count("fault:failed-after-completed-substep", 1)
	}
	// managed refs: unchanged, or equal to the target of their latest log entry
	for _, r := range c16Managed {
		if got.RawRefs[r] == before.RawRefs[r] {
			continue
		}
		if got.RawRefs[r] != "" && got.RawRefs[r] == got.Latest[r] {
			continue
		}
		a := map[string]string{"op": op.Name, "start": cs.Start, "call": attrs["call"], "mode": "fault", "ref": r}
		c.Violation("managed-ref-inconsistent-after-fault", a, fmt.Sprintf("operation failed (%v); %s was %q and is now %q, its latest log entry records %q", err, r, before.RawRefs[r], got.RawRefs[r], got.Latest[r]), cs)
		return
	}
	// retry without fault must succeed and reach the uninterrupted state
	rsl.VerifResetCache()
	rerr := op.Run(st)
	if rerr != nil {
		c.Violation("retry-fails", attrs, fmt.Sprintf("after the fault cleared, repeating the operation fails: %v", rerr), cs)
		return
	}
	final := c16Snapshot(st)
	if !final.equivalent(after) {
		extra := got.Log[len(before.Log):]
		if len(extra) == 1 && strings.HasPrefix(extra[0], "reference|"+policy.PolicyStagingRef+"|") && got.Managed[policy.PolicyStagingRef] == got.Managed[policy.PolicyRef] && before.Managed[policy.PolicyStagingRef] != before.Managed[policy.PolicyRef] {
			// one cause whatever call failed: the diverged-staging reconcile had already reset
			// staging to the policy tip (first sub-step, complete entry) when the fault hit, and
			// the staged changes only lived in memory
			attrs = map[string]string{"cause": "diverged-reconcile-lost-staged-changes"}
		}
		c.Violation("retry-reaches-different-state", attrs, fmt.Sprintf("retry succeeded but the state differs from an uninterrupted run:\nlog %v\nwant %v\nrefs %v want %v", final.Log, after.Log, final.Managed, after.Managed), cs)
		return
	}
	c.Count("fault:error-clean-retry-ok", 1)
}

func replayC16(c *fw.Ctx, raw json.RawMessage) error {
	var cs c16Case
	if err := json.Unmarshal(raw, &cs); err != nil {
		return err
	}
	if cs.Op == "" {
		var w struct {
			Case c16Case `json:"case"`
		}
		if err := json.Unmarshal(raw, &w); err == nil {
			cs = w.Case
		}
	}
	for _, op := range c16Ops() {
		if op.Name == cs.Op {
			fmt.Printf("operation %s from %s, storage call #%d (%s), mode %s\n", cs.Op, cs.Start, cs.K, cs.Call, cs.Mode)
			c16Enumerate(c, op, cs.Start, cs.K, cs.Mode)
			return nil
		}
	}
	return fmt.Errorf("unknown operation %q", cs.Op)
}

var _ = sort.Strings
var _ = memstore.New
