package checks

import (
	"fmt"
	"math/rand/v2"
	"sort"

	"github.com/gittuf/gittuf/internal/verifharness/scen"
)

// Shared generator of abstract policies and histories (C01, C07, C08, C11).

const (
	refMain    = "refs/heads/main"
	refRel     = "refs/heads/rel/1"
	refScratch = "refs/heads/scratch"
	refTag     = "refs/tags/v1"
)

var histRefs = []string{refMain, refRel, refScratch}

func keyPrincipal(k string) scen.Principal { return scen.Principal{ID: "P" + k[1:], Keys: []string{k}} }

var rootPrincipal = scen.Principal{ID: "R", Keys: []string{"root"}}

// polShape is the compact, mutable description the generator evolves; it is
// expanded to a scen.Policy by build().
type polShape struct {
	Main     []string `json:"main"` // keys authorized for main
	MainThr  int      `json:"main_thr"`
	Rel      []string `json:"rel"` // keys of the top-level rel rule
	RelThr   int      `json:"rel_thr"`
	RelDeleg int      `json:"rel_deleg"` // 0 none, 1 one delegated file, 2 two levels
	Rel1     []string `json:"rel1"`
	Rel1Thr  int      `json:"rel1_thr"`
	Rel2     []string `json:"rel2"`
	Rel2Thr  int      `json:"rel2_thr"`
	// Rel1Broad: the rule inside the delegated file claims git:refs/heads/* although
	// its file is only reachable through the rel/* rule (scope must not leak to main)
	Rel1Broad bool              `json:"rel1_broad,omitempty"`
	Globals   []scen.GlobalRule `json:"globals,omitempty"`
	Tag       []string          `json:"tag,omitempty"` // keys authorized for refs/tags/*
	TagThr    int               `json:"tag_thr,omitempty"`
}

func principalsOf(keysets ...[]string) ([]scen.Principal, map[string]bool) {
	seen := map[string]bool{}
	out := []scen.Principal{}
	for _, ks := range keysets {
		for _, k := range ks {
			if !seen[k] {
				seen[k] = true
				out = append(out, keyPrincipal(k))
			}
		}
	}
	return out, seen
}

func ids(ks []string) []string {
	out := make([]string, len(ks))
	for i, k := range ks {
		out[i] = keyPrincipal(k).ID
	}
	return out
}

func (s polShape) build() scen.Policy {
	p := scen.Policy{
		RootPrincipals: []scen.Principal{rootPrincipal}, RootThreshold: 1, RootSigners: []string{"root"},
		TargetsPrincipals: []scen.Principal{rootPrincipal}, TargetsThreshold: 1,
		Globals: s.Globals,
	}
	tprs, _ := principalsOf(s.Main, s.Rel, s.Tag)
	tf := scen.RuleFile{Name: "targets", Principals: tprs, Signers: []string{"root"}}
	if len(s.Main) > 0 {
		tf.Rules = append(tf.Rules, scen.Rule{Name: "protect-main", Patterns: []string{"git:" + refMain}, Principals: ids(s.Main), Threshold: s.MainThr})
	}
	if len(s.Rel) > 0 {
		tf.Rules = append(tf.Rules, scen.Rule{Name: "protect-rel", Patterns: []string{"git:refs/heads/rel/*"}, Principals: ids(s.Rel), Threshold: s.RelThr})
	}
	if len(s.Tag) > 0 {
		tf.Rules = append(tf.Rules, scen.Rule{Name: "protect-tags", Patterns: []string{"git:refs/tags/*"}, Principals: ids(s.Tag), Threshold: s.TagThr})
	}
	p.Files = append(p.Files, tf)
	if len(s.Rel) > 0 && s.RelDeleg >= 1 && len(s.Rel1) > 0 {
		prs, _ := principalsOf(s.Rel1, s.Rel2)
		f1 := scen.RuleFile{Name: "protect-rel", Principals: prs, Signers: append([]string{}, s.Rel[:s.RelThr]...)}
		inner := "git:refs/heads/rel/*"
		if s.Rel1Broad {
			inner = "git:refs/heads/*"
		}
		f1.Rules = append(f1.Rules, scen.Rule{Name: "rel-inner", Patterns: []string{inner}, Principals: ids(s.Rel1), Threshold: s.Rel1Thr})
		p.Files = append(p.Files, f1)
		if s.RelDeleg >= 2 && len(s.Rel2) > 0 {
			prs2, _ := principalsOf(s.Rel2)
			f2 := scen.RuleFile{Name: "rel-inner", Principals: prs2, Signers: append([]string{}, s.Rel1[:s.Rel1Thr]...)}
			f2.Rules = append(f2.Rules, scen.Rule{Name: "rel-leaf", Patterns: []string{"git:" + refRel}, Principals: ids(s.Rel2), Threshold: s.Rel2Thr})
			p.Files = append(p.Files, f2)
		}
	}
	return p
}

var allKeys = []string{"k1", "k2", "k3", "k4"}

func subset(r *rand.Rand, min int) []string {
	for {
		out := []string{}
		for _, k := range allKeys {
			if r.IntN(2) == 0 {
				out = append(out, k)
			}
		}
		if len(out) >= min {
			return out
		}
	}
}

func thr(r *rand.Rand, n int) int {
	m := n
	if m > 3 {
		m = 3
	}
	return 1 + r.IntN(m)
}

func randShape(r *rand.Rand) polShape {
	s := polShape{}
	s.Main = subset(r, 1)
	s.MainThr = thr(r, len(s.Main))
	s.Rel = subset(r, 1)
	s.RelThr = thr(r, len(s.Rel))
	s.RelDeleg = r.IntN(3)
	s.Rel1 = subset(r, 1)
	s.Rel1Thr = thr(r, len(s.Rel1))
	s.Rel2 = subset(r, 1)
	s.Rel2Thr = thr(r, len(s.Rel2))
	s.Rel1Broad = r.IntN(3) == 0
	return s
}

// withTags adds a tag rule to the shape (used by generators that emit tag events).
func withTags(r *rand.Rand, s polShape) polShape {
	s.Tag = subset(r, 1)
	s.TagThr = thr(r, len(s.Tag))
	if s.TagThr > 2 {
		s.TagThr = 2
	}
	return s
}

func without(ks []string, k string) []string {
	out := []string{}
	for _, x := range ks {
		if x != k {
			out = append(out, x)
		}
	}
	return out
}

func with(ks []string, k string) []string {
	for _, x := range ks {
		if x == k {
			return ks
		}
	}
	out := append(append([]string{}, ks...), k)
	sort.Strings(out)
	return out
}

// mutateShape returns an evolved shape: authorize / de-authorize / re-authorize
// a principal, change a threshold, add or remove a delegation level.
func mutateShape(r *rand.Rand, s polShape) polShape {
	n := s
	n.Main = append([]string{}, s.Main...)
	n.Rel = append([]string{}, s.Rel...)
	n.Rel1 = append([]string{}, s.Rel1...)
	n.Rel2 = append([]string{}, s.Rel2...)
	k := allKeys[r.IntN(len(allKeys))]
	fix := func(ks []string, t int) ([]string, int) {
		if len(ks) == 0 {
			ks = []string{k}
		}
		if t > len(ks) {
			t = len(ks)
		}
		if t < 1 {
			t = 1
		}
		return ks, t
	}
	switch r.IntN(8) {
	case 0:
		n.Main = without(n.Main, k)
	case 1:
		n.Main = with(n.Main, k)
	case 2:
		n.MainThr = 1 + r.IntN(3)
	case 3:
		n.Rel = without(n.Rel, k)
	case 4:
		n.Rel = with(n.Rel, k)
	case 5:
		n.RelThr = 1 + r.IntN(3)
	case 6:
		// delegated files never disappear from one state to the next (C02), so only grow
		if n.RelDeleg < 2 {
			n.RelDeleg++
		}
	case 7:
		if r.IntN(2) == 0 {
			n.Rel1 = with(n.Rel1, k)
		} else {
			n.Rel2 = without(n.Rel2, k)
		}
	}
	n.Main, n.MainThr = fix(n.Main, n.MainThr)
	n.Rel, n.RelThr = fix(n.Rel, n.RelThr)
	n.Rel1, n.Rel1Thr = fix(n.Rel1, n.Rel1Thr)
	n.Rel2, n.Rel2Thr = fix(n.Rel2, n.Rel2Thr)
	return n
}

var signersPool = []string{"k1", "k2", "k3", "k4", "kx", ""}

type histOpts struct {
	Tags        bool
	Len         int
	Propagation bool // allow propagation entries
	Globals     bool
	ForcePushes bool
	NoApprovals bool
}

// genHistory samples a long history. The first event is always a policy.
func genHistory(r *rand.Rand, o histOpts) *scen.History {
	shape := randShape(r)
	if o.Tags {
		shape = withTags(r, shape)
	}
	lastTag := -1
	h := &scen.History{}
	add := func(e scen.Event) int { h.Events = append(h.Events, e); return len(h.Events) - 1 }
	pol := shape.build()
	add(scen.Event{Kind: "policy", Policy: &pol, Signer: "root"})
	lastEntry := map[string]int{} // ref -> event index of latest entry
	lastUnskippedContent := map[string]string{}
	pendingContent := map[string]string{}
	wantFix := map[string]bool{}
	pushes := []int{}
	for _, rf := range histRefs {
		lastEntry[rf] = -1
	}
	contents := []string{"a", "b", "c"}
	for len(h.Events) < o.Len {
		x := r.IntN(100)
		switch {
		case o.Tags && x < 14 && len(pushes) > 0: // tag an earlier push, or re-record / approve a tag
			switch y := r.IntN(10); {
			case y < 5:
				i := add(scen.Event{Kind: "tag", Ref: refTag, OnPush: pushes[r.IntN(len(pushes))], TagSigner: signersPool[r.IntN(len(signersPool))], Signer: signersPool[r.IntN(len(signersPool))]})
				lastTag = i
			case y < 8 && lastTag >= 0:
				// the same tag object recorded again (by a possibly different signer)
				orig := lastTag
				if h.Events[orig].Reuse > 0 {
					orig = h.Events[orig].Reuse - 1
				}
				i := add(scen.Event{Kind: "tag", Ref: refTag, OnPush: h.Events[orig].OnPush, Reuse: orig + 1, Signer: signersPool[r.IntN(len(signersPool))]})
				lastTag = i
			default:
				on := pushes[r.IntN(len(pushes))]
				ap := []string{signersPool[r.IntN(5)]}
				if r.IntN(2) == 0 {
					ap = append(ap, signersPool[r.IntN(5)])
				}
				add(scen.Event{Kind: "approve", Ref: refTag, FromPush: lastTag, TagOn: on + 1, Approvers: ap, Signer: ap[0]})
			}
		case x < 50: // push
			ref := histRefs[r.IntN(len(histRefs))]
			signer := signersPool[r.IntN(len(signersPool))]
			content := contents[r.IntN(len(contents))]
			if c, ok := pendingContent[ref]; ok && r.IntN(5) != 0 {
				content = c
			}
			delete(pendingContent, ref)
			if wantFix[ref] && r.IntN(4) != 0 {
				content = lastUnskippedContent[ref]
				signer = allKeys[r.IntN(len(allKeys))]
				delete(wantFix, ref)
			}
			ev := scen.Event{Kind: "push", Ref: ref, Signer: signer, Content: content}
			if o.ForcePushes && r.IntN(6) == 0 {
				ev.Force = true
			}
			i := add(ev)
			lastEntry[ref] = i
			pushes = append(pushes, i)
			lastUnskippedContent[ref] = content // refined below when skipped
		case x < 62: // policy update
			shape = mutateShape(r, shape)
			p := shape.build()
			add(scen.Event{Kind: "policy", Policy: &p, Signer: "root"})
		case x < 77 && !o.NoApprovals: // approval for an upcoming change
			ref := histRefs[r.IntN(2)]
			content := contents[r.IntN(len(contents))]
			n := 1 + r.IntN(2)
			ap := []string{}
			for j := 0; j < n; j++ {
				ap = append(ap, signersPool[r.IntN(5)])
			}
			from := lastEntry[ref]
			if from >= 0 && h.Events[from].Kind != "push" {
				from = -2 // no resolvable commit: skip
			}
			if from == -2 {
				continue
			}
			if r.IntN(8) == 0 && len(pushes) > 0 {
				from = pushes[r.IntN(len(pushes))] // approval of a neighbour change (other "from")
			}
			add(scen.Event{Kind: "approve", Ref: ref, FromPush: from, Content: content, Approvers: ap, Signer: ap[0]})
			pendingContent[ref] = content
		case x < 90: // annotation
			if len(pushes) == 0 {
				continue
			}
			n := 1 + r.IntN(2)
			ts := []int{}
			for j := 0; j < n; j++ {
				// bias towards recent pushes
				k := len(pushes) - 1 - r.IntN(min(3, len(pushes)))
				ts = append(ts, pushes[k])
			}
			skip := r.IntN(10) < 7
			add(scen.Event{Kind: "annotate", Targets: ts, Skip: skip, Signer: signersPool[r.IntN(len(signersPool))]})
			if skip {
				for _, t := range ts {
					wantFix[h.Events[t].Ref] = true
				}
			}
		case x < 94: // staging-only entry
			p := mutateShape(r, shape).build()
			add(scen.Event{Kind: "staging", Policy: &p, Signer: "root"})
		default:
			if !o.Propagation {
				continue
			}
			ref := histRefs[r.IntN(len(histRefs))]
			i := add(scen.Event{Kind: "propagation", Ref: ref, Signer: signersPool[r.IntN(len(signersPool))], Content: contents[r.IntN(len(contents))]})
			lastEntry[ref] = i
		}
	}
	// lastUnskippedContent above is only a generation heuristic; the oracle recomputes everything.
	return h
}

func describeEvent(i int, e scen.Event) string {
	switch e.Kind {
	case "push":
		f := ""
		if e.Force {
			f = " force"
		}
		return fmt.Sprintf("%d:push %s by %q content=%s%s", i, e.Ref, e.Signer, e.Content, f)
	case "approve":
		if e.TagOn > 0 {
			return fmt.Sprintf("%d:approve tagging of #%d as %s from#%d by %v", i, e.TagOn-1, e.Ref, e.FromPush, e.Approvers)
		}
		return fmt.Sprintf("%d:approve %s from#%d ->%s by %v", i, e.Ref, e.FromPush, e.Content, e.Approvers)
	case "annotate":
		return fmt.Sprintf("%d:annotate %v skip=%v", i, e.Targets, e.Skip)
	case "policy", "rawpolicy", "staging":
		s := ""
		for _, f := range e.Policy.Files {
			for _, r := range f.Rules {
				s += fmt.Sprintf(" %s/%s%v>=%d", f.Name, r.Name, r.Principals, r.Threshold)
			}
		}
		for _, g := range e.Policy.Globals {
			s += fmt.Sprintf(" G:%s%v>=%d", g.Kind, g.Patterns, g.Threshold)
		}
		return fmt.Sprintf("%d:%s%s", i, e.Kind, s)
	case "propagation":
		return fmt.Sprintf("%d:propagation %s by %q content=%s", i, e.Ref, e.Signer, e.Content)
	case "tag":
		if e.Reuse > 0 {
			return fmt.Sprintf("%d:tag %s re-records the tag object of #%d, entry by %q", i, e.Ref, e.Reuse-1, e.Signer)
		}
		return fmt.Sprintf("%d:tag %s on#%d tagsigner=%q entry by %q", i, e.Ref, e.OnPush, e.TagSigner, e.Signer)
	}
	return fmt.Sprintf("%d:%s", i, e.Kind)
}

func describeHistory(h *scen.History) []string {
	out := make([]string, len(h.Events))
	for i, e := range h.Events {
		out[i] = describeEvent(i, e)
	}
	return out
}
