package checks

import (
	"encoding/json"
	"errors"
	"fmt"
	"os"
	"strings"

	"github.com/gittuf/gittuf/internal/policy"
	"github.com/gittuf/gittuf/internal/verifharness/fw"
	"github.com/gittuf/gittuf/internal/verifharness/oracle"
	"github.com/gittuf/gittuf/internal/verifharness/scen"
	"github.com/gittuf/gittuf/pkg/rsl"
)

// C01 — verification accepts only histories authorized by the policy in force.

func init() {
	fw.Register(&fw.Check{
		ID:    "C01",
		Level: "exploration",
		Rule: "abstract histories (policy updates that authorize/de-authorize/re-authorize principals, change thresholds, add 1-2 delegation levels; pushes signed by authorized/de-authorized/never-authorized/unknown/no key; approvals naming the exact or a neighbouring change; skip/plain annotations; staging and propagation entries) over 3 refs (literal rule, prefix rule with delegation, unprotected). " +
			"Short logs: every sequence of <= L events over a 9-letter alphabet x 2 initial policies (exhaustive); long logs: sampled. Each history is built with gittuf's writers on the in-memory Storer, every ref verified with VerifyRefFull and VerifyRef, and judged by the reference model (policy immediately preceding each entry; recovery fold). " +
			"distinct = hash of (abstract history, ref); non-trivial = the ref has >= 2 entries and the history contains a policy change or an unauthorized entry or an approval",
		Assumptions: []string{
			"memstore implements gitstore.Storer faithfully for the calls rsl/policy/attestations make; a seeded sample (and every violating history) is rebuilt on real git and must give the same verdict",
			"principals share no keys (exactness of the threshold count)",
			"not judged (generated, outcome recorded): first state of a ref is the violation; fix entry recorded by an unauthorized actor; entries recorded before any policy",
		},
		MinNontrivial: 300,
		Exhaustive: func(tier string) (bool, string) {
			if tier == "thorough" {
				return true, "all event sequences of length <= 5 over the 9-letter short-log alphabet x 2 initial policies"
			}
			return true, "all event sequences of length <= 4 over the 9-letter short-log alphabet x 2 initial policies"
		},
		Run:    runC01,
		Replay: replayC01,
	})
}

type c01Case struct {
	History *scen.History `json:"history"`
	Ref     string        `json:"ref"`
	Events  []string      `json:"events,omitempty"`
}

// ---- short-log alphabet (bounded exhaustive)

func c01Alphabet(initThr int) (scen.Policy, []func(h *scen.History) scen.Event) {
	init := polShape{Main: []string{"k1", "k2"}, MainThr: initThr, Rel: []string{"k1"}, RelThr: 1}
	swapped := polShape{Main: []string{"k2", "k3"}, MainThr: initThr, Rel: []string{"k1"}, RelThr: 1}
	lastMain := func(h *scen.History) int {
		for i := len(h.Events) - 1; i >= 0; i-- {
			if (h.Events[i].Kind == "push" || h.Events[i].Kind == "propagation") && h.Events[i].Ref == refMain {
				return i
			}
		}
		return -1
	}
	letters := []func(h *scen.History) scen.Event{
		func(h *scen.History) scen.Event {
			return scen.Event{Kind: "push", Ref: refMain, Signer: "k1", Content: "a"}
		},
		func(h *scen.History) scen.Event {
			return scen.Event{Kind: "push", Ref: refMain, Signer: "k1", Content: "b"}
		},
		func(h *scen.History) scen.Event {
			return scen.Event{Kind: "push", Ref: refMain, Signer: "k3", Content: "b"}
		},
		func(h *scen.History) scen.Event {
			return scen.Event{Kind: "push", Ref: refMain, Signer: "", Content: "a"}
		},
		func(h *scen.History) scen.Event {
			from := lastMain(h)
			if from >= 0 && h.Events[from].Kind != "push" {
				from = -1
			}
			return scen.Event{Kind: "approve", Ref: refMain, FromPush: from, Content: "b", Approvers: []string{"k2"}, Signer: "k2"}
		},
		func(h *scen.History) scen.Event {
			t := lastMain(h)
			if t < 0 || h.Events[t].Kind != "push" {
				return scen.Event{Kind: "noop"}
			}
			return scen.Event{Kind: "annotate", Targets: []int{t}, Skip: true, Signer: "k1"}
		},
		func(h *scen.History) scen.Event {
			p := swapped.build()
			return scen.Event{Kind: "policy", Policy: &p, Signer: "root"}
		},
		func(h *scen.History) scen.Event {
			return scen.Event{Kind: "push", Ref: refScratch, Signer: "kx", Content: "c"}
		},
		func(h *scen.History) scen.Event {
			return scen.Event{Kind: "propagation", Ref: refMain, Signer: "kx", Content: "b"}
		},
	}
	return init.build(), letters
}

func c01ShortLogs(c *fw.Ctx, maxLen int, visit func(idx int, h *scen.History)) {
	idx := 0
	for _, initThr := range []int{1, 2} {
		pol, letters := c01Alphabet(initThr)
		var rec func(h *scen.History, depth int)
		rec = func(h *scen.History, depth int) {
			if depth > 0 {
				if c.Mine(idx) {
					cp := &scen.History{Events: append([]scen.Event{}, h.Events...)}
					visit(idx, cp)
				}
				idx++
			}
			if depth == maxLen {
				return
			}
			for _, l := range letters {
				ev := l(h)
				if ev.Kind == "noop" {
					continue
				}
				h.Events = append(h.Events, ev)
				rec(h, depth+1)
				h.Events = h.Events[:len(h.Events)-1]
			}
		}
		p := pol
		rec(&scen.History{Events: []scen.Event{{Kind: "policy", Policy: &p, Signer: "root"}}}, 0)
	}
}

func runC01(c *fw.Ctx) {
	maxLen := c.Pick(4, 5)
	gitBudget := c.Pick(3, 30)          // fidelity rebuilds on real git per shard
	only := os.Getenv("VERIF_C01_ONLY") // debugging aid: restrict to one family
	if only == "" || only == "short" {
		c01ShortLogs(c, maxLen, func(idx int, h *scen.History) {
			c01Judge(c, h, &gitBudget, idx%997 == 0)
		})
	}
	if only == "" || only == "tags" {
		c01TagFamily(c, func(idx int, h *scen.History) {
			c01Judge(c, h, &gitBudget, false)
		})
	}
	if only != "" && only != "long" {
		return
	}
	nLong := c.Pick(5000, 200000)
	r := c.Rand(uint64(100 + c.Shard))
	for i := 0; i < nLong/c.NShards; i++ {
		h := genHistory(r, histOpts{Len: 6 + r.IntN(25), Propagation: r.IntN(4) == 0, Tags: i%3 == 0})
		c01Judge(c, h, &gitBudget, i%400 == 0)
	}
}

// c01TagFamily enumerates short tag histories: a tag rule with threshold 1 or 2,
// a tag created by an authorized / unauthorized tagger, recorded by an
// authorized / unauthorized pusher, with or without an approval of the tagging
// by the second tag principal, and optionally the same tag object recorded a
// second time (with or without its own approval).
func c01TagFamily(c *fw.Ctx, visit func(idx int, h *scen.History)) {
	idx := 0
	for _, tagThr := range []int{1, 2} {
		for _, tagger := range []string{"k1", "k4"} {
			for _, pusher := range []string{"k1", "k4"} {
				for _, approve1 := range []string{"", "exact", "other-commit", "other-from"} {
					for _, again := range []int{0, 1, 2} { // 0 no, 1 re-record, 2 re-record with approval
						for _, pusher2 := range []string{"k1", "k2"} {
							if again == 0 && pusher2 != "k1" {
								continue
							}
							if !c.Mine(idx) {
								idx++
								continue
							}
							sh := polShape{Main: []string{"k1", "k2"}, MainThr: 1, Rel: []string{"k1"}, RelThr: 1, Tag: []string{"k1", "k2"}, TagThr: tagThr}
							p := sh.build()
							h := &scen.History{Events: []scen.Event{{Kind: "policy", Policy: &p, Signer: "root"}}}
							h.Events = append(h.Events, scen.Event{Kind: "push", Ref: refMain, Signer: "k1", Content: "a"})
							h.Events = append(h.Events, scen.Event{Kind: "push", Ref: refMain, Signer: "k1", Content: "b"})
							switch approve1 {
							case "exact":
								h.Events = append(h.Events, scen.Event{Kind: "approve", Ref: refTag, FromPush: -1, TagOn: 2, Approvers: []string{"k2"}, Signer: "k2"})
							case "other-commit": // approval of tagging the neighbouring commit
								h.Events = append(h.Events, scen.Event{Kind: "approve", Ref: refTag, FromPush: -1, TagOn: 3, Approvers: []string{"k2"}, Signer: "k2"})
							case "other-from": // approval of moving the tag from another state
								h.Events = append(h.Events, scen.Event{Kind: "approve", Ref: refTag, FromPush: 2, TagOn: 2, Approvers: []string{"k2"}, Signer: "k2"})
							}
							h.Events = append(h.Events, scen.Event{Kind: "tag", Ref: refTag, OnPush: 1, TagSigner: tagger, Signer: pusher})
							first := len(h.Events) - 1
							if again > 0 {
								if again == 2 {
									ap := "k2"
									if pusher2 == "k2" {
										ap = "k1"
									}
									h.Events = append(h.Events, scen.Event{Kind: "approve", Ref: refTag, FromPush: first, TagOn: 2, Approvers: []string{ap}, Signer: ap})
								}
								h.Events = append(h.Events, scen.Event{Kind: "tag", Ref: refTag, OnPush: 1, Reuse: first + 1, Signer: pusher2})
							}
							visit(idx, h)
							idx++
						}
					}
				}
			}
		}
	}
}

func errClass(err error) string {
	switch {
	case err == nil:
		return "accept"
	case errors.Is(err, policy.ErrVerificationFailed):
		return "reject:verification-failed"
	case errors.Is(err, policy.ErrInvalidEntryNotSkipped):
		return "reject:invalid-entry-not-skipped"
	case errors.Is(err, policy.ErrLastGoodEntryIsSkipped):
		return "reject:last-good-skipped"
	case errors.Is(err, policy.ErrPolicyNotFound):
		return "reject:policy-not-found"
	case errors.Is(err, rsl.ErrRSLEntryNotFound):
		return "reject:entry-not-found"
	case errors.Is(err, policy.ErrVerifierConditionsUnmet):
		return "reject:conditions-unmet"
	default:
		s := err.Error()
		if len(s) > 60 {
			s = s[:60]
		}
		return "reject:other:" + s
	}
}

func histNontrivial(h *scen.History, v oracle.Verdict) bool {
	if len(v.Entries) < 2 {
		return false
	}
	pols, approvals := 0, 0
	for _, e := range h.Events {
		switch e.Kind {
		case "policy":
			pols++
		case "approve":
			approvals++
		}
	}
	inval := false
	for _, e := range v.Entries {
		if !e.Valid {
			inval = true
		}
	}
	return pols > 1 || approvals > 0 || inval
}

// c01Judge builds h on memstore, verifies every ref and compares with the model.
func c01Judge(c *fw.Ctx, h *scen.History, gitBudget *int, fidelity bool) {
	histJudge(c, h, gitBudget, fidelity, false)
}

// histJudge is shared by C01 and C07; fromEntries additionally verifies from
// every authorized, unrevoked earlier entry of each ref (VerifyRefFromEntry).
func histJudge(c *fw.Ctx, h *scen.History, gitBudget *int, fidelity bool, fromEntries bool) {
	rsl.VerifResetCache() // single-threaded shard: no other user of the process-wide parse cache
	b := scen.NewMem()
	built, _ := h.Build(b)
	for i, e := range built.Errors {
		if e != "" {
			c.Eval(1)
			c.Inconclusive("builder: " + h.Events[i].Kind)
			c.Note("last_builder_error", fmt.Sprintf("%s: %s", describeEvent(i, h.Events[i]), e))
			return
		}
	}
	anyViolation := false
	results := map[string]string{}
	for _, ref := range append(append([]string{}, histRefs...), refTag) {
		v := oracle.EvalRef(h, ref)
		if len(v.Entries) == 0 {
			continue
		}
		c.Eval(1)
		cs := c01Case{History: h, Ref: ref, Events: describeHistory(h)}
		c.Guard(cs, func() {
			tip, err := policy.NewPolicyVerifier(b).VerifyRefFull(scen.Ctx, ref)
			results[ref] = errClass(err)
			c.Count("observed:"+strings.SplitN(errClass(err), ":", 3)[0], 1)
			if !v.Judged {
				c.NotJudged(v.Reason)
				c.Count("not_judged_observed:"+strings.SplitN(errClass(err), ":", 2)[0], 1)
				return
			}
			if histNontrivial(h, v) {
				c.Nontrivial(fw.Hash(h, ref))
			}
			switch {
			case v.Accept && err != nil:
				anyViolation = true
				c.Violation("false-reject", map[string]string{"error": strings.SplitN(errClass(err), ":", 3)[1]}, fmt.Sprintf("history authorized at every step for %s but VerifyRefFull failed: %v", ref, err), cs)
			case !v.Accept && err == nil:
				anyViolation = true
				c.Violation("false-accept", map[string]string{"offender": c01Offender(v)}, fmt.Sprintf("VerifyRefFull accepted %s although %s", ref, v.Reason), cs)
			case v.Accept && err == nil:
				want := built.CommitID[v.TipEvent]
				if !tip.Equal(want) {
					anyViolation = true
					c.Violation("wrong-tip", nil, fmt.Sprintf("reported tip %s, latest entry's target is %s", tip.String(), want.String()), cs)
				}
				c.Count("agree:accept", 1)
			default:
				c.Count("agree:reject", 1)
			}
			// latest-only mode, soundness direction: accept => the latest entry is authorized
			last := v.Entries[len(v.Entries)-1]
			_, lerr := policy.NewPolicyVerifier(b).VerifyRef(scen.Ctx, ref)
			if lerr == nil && last.HasPolicy && !last.Valid && last.Kind == "push" {
				anyViolation = true
				c.Violation("false-accept-latest-only", map[string]string{"offender": last.Kind}, fmt.Sprintf("VerifyRef (latest only) accepted %s whose latest entry (event %d) is unauthorized", ref, last.Event), cs)
			}
			if lerr != nil && last.HasPolicy && last.Valid && last.Kind == "push" {
				anyViolation = true
				c.Violation("false-reject-latest-only", map[string]string{"error": strings.SplitN(errClass(lerr), ":", 3)[1]}, fmt.Sprintf("VerifyRef (latest only) rejected %s whose latest entry is authorized: %v", ref, lerr), cs)
			}
			if !fromEntries {
				return
			}
			for _, e := range v.Entries {
				if e.Kind != "push" || !e.Valid || e.Skipped {
					continue
				}
				fv := oracle.EvalRefFrom(h, ref, e.Event)
				c.Eval(1)
				_, ferr := policy.NewPolicyVerifier(b).VerifyRefFromEntry(scen.Ctx, ref, built.EntryID[e.Event])
				if !fv.Judged {
					c.NotJudged("from-entry: " + fv.Reason)
					continue
				}
				c.Nontrivial(fw.Hash(h, ref, e.Event))
				if fv.Accept && ferr != nil {
					anyViolation = true
					c.Violation("false-reject-from-entry", map[string]string{"error": strings.SplitN(errClass(ferr), ":", 3)[1]}, fmt.Sprintf("verification of %s from event %d should succeed: %v", ref, e.Event, ferr), cs)
				}
				if !fv.Accept && ferr == nil {
					anyViolation = true
					c.Violation("false-accept-from-entry", map[string]string{"offender": c01Offender(fv)}, fmt.Sprintf("verification of %s from event %d accepted although %s", ref, e.Event, fv.Reason), cs)
				}
			}
		})
	}
	c.Sample(map[string]any{"events": describeHistory(h), "observed": results})
	if (fidelity || anyViolation) && *gitBudget > 0 {
		*gitBudget--
		c01Fidelity(c, h, results)
	}
}

func c01Offender(v oracle.Verdict) string {
	// the entry the model rejects the history for (first in log order); a later
	// unauthorized entry that merely repairs a revoked one must not relabel it
	if v.Offender != "" {
		return v.Offender
	}
	kinds := map[string]bool{}
	for _, e := range v.Entries {
		if !e.Valid && !e.Skipped && e.HasPolicy {
			kinds[e.Kind] = true
		}
	}
	if len(kinds) == 1 && kinds["propagation"] {
		return "propagation-entry"
	}
	if len(kinds) == 0 {
		return "recovery"
	}
	return "reference-entry"
}

// c01Fidelity rebuilds the history on real git and requires the same verdicts.
func c01Fidelity(c *fw.Ctx, h *scen.History, memResults map[string]string) {
	g, cleanup, err := newScratchGit(c, "fid")
	if err != nil {
		c.Inconclusive("fidelity: git init failed")
		return
	}
	defer cleanup()
	built, _ := h.Build(g)
	for _, e := range built.Errors {
		if e != "" {
			c.Inconclusive("fidelity: builder error on real git")
			c.Note("last_fidelity_error", e)
			return
		}
	}
	for ref, mem := range memResults {
		_, err := policy.NewPolicyVerifier(g).VerifyRefFull(scen.Ctx, ref)
		c.Count("fidelity_compared", 1)
		if (err == nil) != (mem == "accept") {
			c.Inconclusive("backend-mismatch")
			c.Note("last_backend_mismatch", map[string]any{"events": describeHistory(h), "ref": ref, "mem": mem, "git": errClass(err), "history": h})
		}
	}
}

func replayC01(c *fw.Ctx, raw json.RawMessage) error {
	var cs c01Case
	if err := json.Unmarshal(raw, &cs); err != nil {
		return err
	}
	if cs.History == nil {
		var w struct {
			Case c01Case `json:"case"`
		}
		if err := json.Unmarshal(raw, &w); err != nil || w.Case.History == nil {
			return fmt.Errorf("no history in replay file")
		}
		cs = w.Case
	}
	for _, l := range describeHistory(cs.History) {
		fmt.Println("  ", l)
	}
	budget := 1
	c01Judge(c, cs.History, &budget, true)
	return nil
}
