// Package keys provides deterministic in-process actors: an SSH key usable
// both for signing Git objects (PEM handed to CommitUsingSpecificKey) and for
// signing DSSE envelopes (sshsig, namespace "git", SHA-512 — the format
// gittuf's ssh verifier expects).
package keys

import (
	"bytes"
	"context"
	"crypto"
	"crypto/ecdsa"
	"crypto/ed25519"
	"crypto/elliptic"
	"crypto/sha256"
	"encoding/base64"
	"encoding/pem"
	"fmt"
	"math/big"
	"os"
	"path/filepath"
	"sync"

	tufv01 "github.com/gittuf/gittuf/internal/tuf/v01"
	tufv02 "github.com/gittuf/gittuf/internal/tuf/v02"
	"github.com/hiddeco/sshsig"
	"github.com/secure-systems-lab/go-securesystemslib/signerverifier"
	"golang.org/x/crypto/ssh"
)

// Actor is one key pair.
type Actor struct {
	Name   string
	signer ssh.Signer
	pub    ssh.PublicKey
	PEM    []byte // OpenSSH private key, for CommitUsingSpecificKey
	KeyID  string
}

var (
	cacheMu sync.Mutex
	cache   = map[string]*Actor{}
	byPEM   = map[string]*Actor{}
)

// ByPEM returns the actor whose private key PEM is given (nil if unknown).
func ByPEM(pemBytes []byte) *Actor {
	cacheMu.Lock()
	defer cacheMu.Unlock()
	return byPEM[string(pemBytes)]
}

// Get returns the deterministic ed25519 actor with the given name.
func Get(name string) *Actor {
	cacheMu.Lock()
	defer cacheMu.Unlock()
	if a, ok := cache[name]; ok {
		return a
	}
	seed := sha256.Sum256([]byte("verif-actor-ed25519:" + name))
	priv := ed25519.NewKeyFromSeed(seed[:])
	a := newActor(name, priv)
	cache[name] = a
	return a
}

// ByName returns the actor for a scenario key name: names of the form e<digit>
// are ecdsa-p256 keys, everything else ed25519.
func ByName(name string) *Actor {
	if len(name) >= 2 && name[0] == 'e' && name[1] >= '0' && name[1] <= '9' {
		return GetECDSA(name)
	}
	return Get(name)
}

// GetECDSA returns a deterministic ecdsa-p256 actor.
func GetECDSA(name string) *Actor {
	cacheMu.Lock()
	defer cacheMu.Unlock()
	key := "ecdsa:" + name
	if a, ok := cache[key]; ok {
		return a
	}
	seed := sha256.Sum256([]byte("verif-actor-ecdsa:" + name))
	curve := elliptic.P256()
	d := new(big.Int).SetBytes(seed[:])
	n := new(big.Int).Sub(curve.Params().N, big.NewInt(1))
	d.Mod(d, n)
	d.Add(d, big.NewInt(1))
	priv := &ecdsa.PrivateKey{D: d}
	priv.PublicKey.Curve = curve
	priv.PublicKey.X, priv.PublicKey.Y = curve.ScalarBaseMult(d.Bytes()) //nolint:staticcheck
	a := newActor(name, priv)
	cache[key] = a
	return a
}

func newActor(name string, priv crypto.Signer) *Actor {
	signer, err := ssh.NewSignerFromSigner(priv)
	if err != nil {
		panic(err)
	}
	var rawPriv crypto.PrivateKey = priv
	if ed, ok := priv.(ed25519.PrivateKey); ok {
		rawPriv = &ed
	}
	block, err := ssh.MarshalPrivateKey(rawPriv, name)
	if err != nil {
		panic(err)
	}
	pub := signer.PublicKey()
	a := &Actor{
		Name:   name,
		signer: signer,
		pub:    pub,
		PEM:    pem.EncodeToMemory(block),
		KeyID:  ssh.FingerprintSHA256(pub),
	}
	byPEM[string(a.PEM)] = a
	return a
}

// SSLibKey returns the public key in gittuf's metadata form.
func (a *Actor) SSLibKey() *signerverifier.SSLibKey {
	return &signerverifier.SSLibKey{
		KeyID:   a.KeyID,
		KeyType: "ssh",
		Scheme:  a.pub.Type(),
		KeyVal:  signerverifier.KeyVal{Public: base64.StdEncoding.EncodeToString(a.pub.Marshal())},
	}
}

// KeyPrincipal returns the actor as a tuf v0.2 Key principal (ID = key ID).
func (a *Actor) KeyPrincipal() *tufv02.Key {
	return tufv02.NewKeyFromSSLibKey(a.SSLibKey())
}

// KeyPrincipalV01 returns the actor as a tuf v0.1 Key principal.
func (a *Actor) KeyPrincipalV01() *tufv01.Key {
	return tufv01.NewKeyFromSSLibKey(a.SSLibKey())
}

// Person returns a v0.2 Person principal with the given ID owning the keys of
// the listed actors.
func Person(id string, identities map[string]string, actors ...*Actor) *tufv02.Person {
	p := &tufv02.Person{PersonID: id, PublicKeys: map[string]*tufv02.Key{}, AssociatedIdentities: identities}
	for _, a := range actors {
		p.PublicKeys[a.KeyID] = a.KeyPrincipal()
	}
	return p
}

// --- dsse.SignerVerifier ---

func (a *Actor) Sign(_ context.Context, data []byte) ([]byte, error) {
	sig, err := sshsig.Sign(bytes.NewReader(data), a.signer, sshsig.HashSHA512, "git")
	if err != nil {
		return nil, err
	}
	return sshsig.Armor(sig), nil
}

func (a *Actor) KeyIDStr() string { return a.KeyID }

func (a *Actor) KeyIDErr() (string, error) { return a.KeyID, nil }

// DSSE adapts the actor to the dsse.SignerVerifier interface.
type DSSE struct{ A *Actor }

func (d DSSE) Sign(ctx context.Context, data []byte) ([]byte, error) { return d.A.Sign(ctx, data) }
func (d DSSE) KeyID() (string, error)                                { return d.A.KeyID, nil }
func (d DSSE) Public() crypto.PublicKey {
	return d.A.pub.(ssh.CryptoPublicKey).CryptoPublicKey()
}
func (d DSSE) Verify(_ context.Context, data, sig []byte) error {
	s, err := sshsig.Unarmor(sig)
	if err != nil {
		return err
	}
	return sshsig.Verify(bytes.NewReader(data), s, d.A.pub, sshsig.HashSHA512, "git")
}

// SignObject signs Git object bytes like git does for gpg.format=ssh.
func (a *Actor) SignObject(contents []byte) string {
	sig, err := sshsig.Sign(bytes.NewReader(contents), a.signer, sshsig.HashSHA512, "git")
	if err != nil {
		panic(err)
	}
	return string(sshsig.Armor(sig))
}

// WriteFiles writes <dir>/<name> (private, OpenSSH) and <dir>/<name>.pub and
// returns the private key path. Needed where gittuf shells out to ssh-keygen.
func (a *Actor) WriteFiles(dir string) string {
	p := filepath.Join(dir, a.Name)
	if err := os.WriteFile(p, a.PEM, 0o600); err != nil {
		panic(err)
	}
	pubLine := fmt.Sprintf("%s %s\n", a.pub.Type(), base64.StdEncoding.EncodeToString(a.pub.Marshal()))
	if err := os.WriteFile(p+".pub", []byte(pubLine), 0o600); err != nil {
		panic(err)
	}
	return p
}
