// Package memstore is an in-memory gitstore.Storer with real Git object
// encoding (SHA-1 object IDs, tree ordering, commit/tag headers, gpgsig
// continuation lines). It contains no gittuf logic; it exists so that the real
// rsl/policy/attestations/cache code can be driven through 10^4-10^6
// generated histories. Commit() is read-tip / create / compare-and-set, exactly
// like gitinterface.Repository.Commit.
package memstore

import (
	"bytes"
	"crypto/sha1" //nolint:gosec
	"errors"
	"fmt"
	"sort"
	"strings"
	"sync"

	"github.com/gittuf/gittuf/internal/verifharness/keys"
	"github.com/gittuf/gittuf/pkg/githash"
	"github.com/gittuf/gittuf/pkg/gitstore"
)

type object struct {
	typ  string
	data []byte
}

// Store is the in-memory repository.
type Store struct {
	mu      sync.Mutex
	objects map[string]*object
	refs    map[string]githash.Hash
	config  map[gitstore.ConfigKey]string
	// SigningKey signs commits made with sign=true (like user.signingkey).
	SigningKey *keys.Actor
	// Clock is the fixed commit timestamp (seconds since epoch); it advances by
	// one per commit when Tick is set so that otherwise identical commits differ.
	Clock int64
	Tick  bool

	commitCache map[string]*Commit
}

// Commit is a parsed commit object.
type Commit struct {
	Tree      githash.Hash
	Parents   []githash.Hash
	Message   string
	Signature string
	payload   []byte
}

func New() *Store {
	s := &Store{
		objects:     map[string]*object{},
		refs:        map[string]githash.Hash{},
		config:      map[gitstore.ConfigKey]string{gitstore.ConfigUserName: "Jane Doe", gitstore.ConfigUserEmail: "jane.doe@example.com"},
		Clock:       814698000,
		Tick:        true,
		commitCache: map[string]*Commit{},
	}
	s.put("tree", nil)
	return s
}

// Clone returns an independent copy sharing the (immutable) object payloads.
func (s *Store) Clone() *Store {
	s.mu.Lock()
	defer s.mu.Unlock()
	n := &Store{
		objects:     make(map[string]*object, len(s.objects)),
		refs:        make(map[string]githash.Hash, len(s.refs)),
		config:      map[gitstore.ConfigKey]string{},
		SigningKey:  s.SigningKey,
		Clock:       s.Clock,
		Tick:        s.Tick,
		commitCache: map[string]*Commit{},
	}
	for k, v := range s.objects {
		n.objects[k] = v
	}
	for k, v := range s.refs {
		n.refs[k] = v
	}
	for k, v := range s.config {
		n.config[k] = v
	}
	return n
}

func hashOf(typ string, data []byte) githash.Hash {
	h := sha1.New() //nolint:gosec
	fmt.Fprintf(h, "%s %d\x00", typ, len(data))
	h.Write(data)
	return githash.Hash(h.Sum(nil))
}

func (s *Store) put(typ string, data []byte) githash.Hash {
	id := hashOf(typ, data)
	k := string(id)
	if _, ok := s.objects[k]; !ok {
		s.objects[k] = &object{typ: typ, data: data}
	}
	return id
}

func (s *Store) get(id githash.Hash, typ string) (*object, error) {
	o, ok := s.objects[string(id)]
	if !ok {
		return nil, fmt.Errorf("memstore: object %s not found", id.String())
	}
	if typ != "" && o.typ != typ {
		return nil, fmt.Errorf("memstore: requested Git ID '%s' is not a %s object", id.String(), typ)
	}
	return o, nil
}

// ---------------------------------------------------------------- references

func (s *Store) GetReference(refName string) (githash.Hash, error) {
	s.mu.Lock()
	defer s.mu.Unlock()
	id, ok := s.refs[refName]
	if !ok {
		return s.ZeroHash(), gitstore.ErrReferenceNotFound
	}
	return append(githash.Hash{}, id...), nil
}

func (s *Store) SetReference(refName string, gitID githash.Hash) error {
	s.mu.Lock()
	defer s.mu.Unlock()
	if _, ok := s.objects[string(gitID)]; !ok {
		return fmt.Errorf("memstore: unable to set Git reference '%s' to '%s': object missing", refName, gitID.String())
	}
	s.refs[refName] = append(githash.Hash{}, gitID...)
	return nil
}

func (s *Store) DeleteReference(refName string) error {
	s.mu.Lock()
	defer s.mu.Unlock()
	delete(s.refs, refName)
	return nil
}

// CheckAndSetReference is the compare-and-set gitinterface uses inside Commit.
func (s *Store) CheckAndSetReference(refName string, newID, oldID githash.Hash) error {
	s.mu.Lock()
	defer s.mu.Unlock()
	cur, ok := s.refs[refName]
	if oldID.IsZero() {
		if ok {
			return fmt.Errorf("memstore: unable to set Git reference '%s': reference already exists", refName)
		}
	} else if !ok || !cur.Equal(oldID) {
		return fmt.Errorf("memstore: unable to set Git reference '%s': expected %s", refName, oldID.String())
	}
	s.refs[refName] = append(githash.Hash{}, newID...)
	return nil
}

// Refs returns a copy of all references.
func (s *Store) Refs() map[string]string {
	s.mu.Lock()
	defer s.mu.Unlock()
	out := make(map[string]string, len(s.refs))
	for k, v := range s.refs {
		out[k] = v.String()
	}
	return out
}

func (s *Store) ZeroHash() githash.Hash { return githash.Hash(make([]byte, 20)) }

// --------------------------------------------------------------------- blobs

func (s *Store) ReadBlob(blobID githash.Hash) ([]byte, error) {
	s.mu.Lock()
	defer s.mu.Unlock()
	o, err := s.get(blobID, "blob")
	if err != nil {
		return nil, err
	}
	return append([]byte{}, o.data...), nil
}

func (s *Store) WriteBlob(contents []byte) (githash.Hash, error) {
	s.mu.Lock()
	defer s.mu.Unlock()
	return s.put("blob", append([]byte{}, contents...)), nil
}

// --------------------------------------------------------------------- trees

// RawEntry is one entry of a tree object.
type RawEntry struct {
	Mode string
	Name string
	ID   githash.Hash
}

func (e RawEntry) isTree() bool { return e.Mode == "40000" }

func sortKey(e RawEntry) string {
	if e.isTree() {
		return e.Name + "/"
	}
	return e.Name
}

func encodeTree(entries []RawEntry) []byte {
	sort.Slice(entries, func(i, j int) bool { return sortKey(entries[i]) < sortKey(entries[j]) })
	var b bytes.Buffer
	for _, e := range entries {
		b.WriteString(e.Mode)
		b.WriteByte(' ')
		b.WriteString(e.Name)
		b.WriteByte(0)
		b.Write(e.ID)
	}
	return b.Bytes()
}

func decodeTree(data []byte) ([]RawEntry, error) {
	out := []RawEntry{}
	for len(data) > 0 {
		sp := bytes.IndexByte(data, ' ')
		if sp < 0 {
			return nil, errors.New("memstore: corrupt tree")
		}
		mode := string(data[:sp])
		data = data[sp+1:]
		nul := bytes.IndexByte(data, 0)
		if nul < 0 || len(data) < nul+21 {
			return nil, errors.New("memstore: corrupt tree")
		}
		name := string(data[:nul])
		id := githash.Hash(append([]byte{}, data[nul+1:nul+21]...))
		data = data[nul+21:]
		out = append(out, RawEntry{Mode: mode, Name: name, ID: id})
	}
	return out, nil
}

func (s *Store) EmptyTree() (githash.Hash, error) {
	return hashOf("tree", nil), nil
}

// WriteRawTree stores a single-level tree from raw entries (harness use).
func (s *Store) WriteRawTree(entries []RawEntry) githash.Hash {
	s.mu.Lock()
	defer s.mu.Unlock()
	return s.put("tree", encodeTree(append([]RawEntry{}, entries...)))
}

type node struct {
	children map[string]*node
	leaf     *gitstore.TreeEntry
}

func (s *Store) WriteTree(entries []gitstore.TreeEntry) (githash.Hash, error) {
	s.mu.Lock()
	defer s.mu.Unlock()
	seen := map[string]struct{}{}
	root := &node{children: map[string]*node{}}
	for i := range entries {
		e := entries[i]
		if _, dup := seen[e.Path]; dup {
			return s.ZeroHash(), fmt.Errorf("%w: %s", gitstore.ErrDuplicateTreePath, e.Path)
		}
		seen[e.Path] = struct{}{}
		parts := strings.Split(e.Path, "/")
		cur := root
		for j, p := range parts {
			if j == len(parts)-1 {
				if existing, ok := cur.children[p]; ok && existing.leaf == nil {
					// an intermediate tree already exists under this name: first writer wins,
					// like gitinterface's builder (populateTree returns early)
					continue
				}
				if _, ok := cur.children[p]; !ok {
					cur.children[p] = &node{leaf: &e}
				}
				break
			}
			nxt, ok := cur.children[p]
			if !ok {
				nxt = &node{children: map[string]*node{}}
				cur.children[p] = nxt
			} else if nxt.leaf != nil {
				// a leaf occupies the name of a needed directory: keep the leaf (first wins)
				nxt = nil
			}
			if nxt == nil {
				break
			}
			cur = nxt
		}
	}
	return s.writeNode(root), nil
}

func (s *Store) writeNode(n *node) githash.Hash {
	raw := make([]RawEntry, 0, len(n.children))
	for name, ch := range n.children {
		if ch.leaf != nil {
			if ch.leaf.Kind == gitstore.KindSubtree {
				raw = append(raw, RawEntry{Mode: "40000", Name: name, ID: ch.leaf.ID})
			} else {
				raw = append(raw, RawEntry{Mode: "100644", Name: name, ID: ch.leaf.ID})
			}
			continue
		}
		raw = append(raw, RawEntry{Mode: "40000", Name: name, ID: s.writeNode(ch)})
	}
	return s.put("tree", encodeTree(raw))
}

func (s *Store) treeEntries(treeID githash.Hash) ([]RawEntry, error) {
	o, err := s.get(treeID, "tree")
	if err != nil {
		return nil, err
	}
	return decodeTree(o.data)
}

func (s *Store) GetEntriesInTree(treeID githash.Hash) ([]gitstore.TreeEntry, error) {
	s.mu.Lock()
	defer s.mu.Unlock()
	raw, err := s.treeEntries(treeID)
	if err != nil {
		return nil, err
	}
	if len(raw) == 0 {
		return nil, nil
	}
	out := make([]gitstore.TreeEntry, 0, len(raw))
	for _, e := range raw {
		k := gitstore.KindBlob
		if e.isTree() {
			k = gitstore.KindSubtree
		}
		out = append(out, gitstore.TreeEntry{Path: e.Name, ID: e.ID, Kind: k})
	}
	return out, nil
}

func (s *Store) flatten(treeID githash.Hash, prefix string, out map[string]githash.Hash) error {
	raw, err := s.treeEntries(treeID)
	if err != nil {
		return err
	}
	for _, e := range raw {
		if e.isTree() {
			if err := s.flatten(e.ID, prefix+e.Name+"/", out); err != nil {
				return err
			}
			continue
		}
		out[prefix+e.Name] = e.ID
	}
	return nil
}

func (s *Store) GetAllFilesInTree(treeID githash.Hash) (map[string]githash.Hash, error) {
	s.mu.Lock()
	defer s.mu.Unlock()
	out := map[string]githash.Hash{}
	if err := s.flatten(treeID, "", out); err != nil {
		return nil, err
	}
	if len(out) == 0 {
		return nil, nil
	}
	return out, nil
}

var ErrTreeDoesNotHavePath = errors.New("tree does not have requested path")

func (s *Store) GetPathIDInTree(treeID githash.Hash, treePath string) (githash.Hash, error) {
	s.mu.Lock()
	defer s.mu.Unlock()
	treePath = strings.TrimSuffix(treePath, "/")
	cur := treeID
	for _, comp := range strings.Split(treePath, "/") {
		raw, err := s.treeEntries(cur)
		if err != nil {
			return nil, err
		}
		found := false
		for _, e := range raw {
			if e.Name == comp {
				cur = e.ID
				found = true
				break
			}
		}
		if !found {
			return nil, fmt.Errorf("%w: %s", ErrTreeDoesNotHavePath, treePath)
		}
	}
	return cur, nil
}

// ------------------------------------------------------------------- commits

func (s *Store) ident() string {
	return fmt.Sprintf("%s <%s> %d +0000", s.config[gitstore.ConfigUserName], s.config[gitstore.ConfigUserEmail], s.Clock)
}

func encodeCommit(tree githash.Hash, parents []githash.Hash, ident, message, signature string) []byte {
	var b bytes.Buffer
	fmt.Fprintf(&b, "tree %s\n", tree.String())
	for _, p := range parents {
		fmt.Fprintf(&b, "parent %s\n", p.String())
	}
	fmt.Fprintf(&b, "author %s\n", ident)
	fmt.Fprintf(&b, "committer %s\n", ident)
	if signature != "" {
		sig := strings.TrimSuffix(signature, "\n")
		b.WriteString("gpgsig ")
		b.WriteString(strings.ReplaceAll(sig, "\n", "\n "))
		b.WriteString("\n")
	}
	b.WriteString("\n")
	b.WriteString(message)
	return b.Bytes()
}

func (s *Store) parseCommit(id githash.Hash) (*Commit, error) {
	if c, ok := s.commitCache[string(id)]; ok {
		return c, nil
	}
	o, err := s.get(id, "commit")
	if err != nil {
		return nil, err
	}
	c := &Commit{}
	data := o.data
	var payload bytes.Buffer
	var sig strings.Builder
	inSig := false
	for {
		nl := bytes.IndexByte(data, '\n')
		if nl < 0 {
			return nil, errors.New("memstore: corrupt commit")
		}
		line := string(data[:nl])
		data = data[nl+1:]
		if line == "" {
			payload.WriteString("\n")
			break
		}
		if inSig && strings.HasPrefix(line, " ") {
			sig.WriteString(line[1:])
			sig.WriteString("\n")
			continue
		}
		inSig = false
		switch {
		case strings.HasPrefix(line, "gpgsig "):
			inSig = true
			sig.WriteString(strings.TrimPrefix(line, "gpgsig "))
			sig.WriteString("\n")
			continue
		case strings.HasPrefix(line, "tree "):
			h, err := githash.NewHash(strings.TrimPrefix(line, "tree "))
			if err != nil {
				return nil, err
			}
			c.Tree = h
		case strings.HasPrefix(line, "parent "):
			h, err := githash.NewHash(strings.TrimPrefix(line, "parent "))
			if err != nil {
				return nil, err
			}
			c.Parents = append(c.Parents, h)
		}
		payload.WriteString(line)
		payload.WriteString("\n")
	}
	c.Message = string(data)
	payload.Write(data)
	c.payload = payload.Bytes()
	c.Signature = sig.String()
	s.commitCache[string(id)] = c
	return c, nil
}

func normalizeMessage(message string) string {
	if !strings.HasSuffix(message, "\n") {
		message += "\n"
	}
	return message
}

// CreateCommit stores a commit object without touching any reference.
func (s *Store) CreateCommit(tree githash.Hash, parents []githash.Hash, message string, signer *keys.Actor) githash.Hash {
	s.mu.Lock()
	defer s.mu.Unlock()
	return s.createCommitLocked(tree, parents, message, signer)
}

func (s *Store) createCommitLocked(tree githash.Hash, parents []githash.Hash, message string, signer *keys.Actor) githash.Hash {
	message = normalizeMessage(message)
	ident := s.ident()
	if s.Tick {
		s.Clock++
	}
	sig := ""
	if signer != nil {
		sig = signer.SignObject(encodeCommit(tree, parents, ident, message, ""))
	}
	return s.put("commit", encodeCommit(tree, parents, ident, message, sig))
}

// CreateCommitWithSignature stores a commit carrying an arbitrary signature
// string (used to lift a signature from another object).
func (s *Store) CreateCommitWithSignature(tree githash.Hash, parents []githash.Hash, message, signature string) githash.Hash {
	s.mu.Lock()
	defer s.mu.Unlock()
	ident := s.ident()
	if s.Tick {
		s.Clock++
	}
	return s.put("commit", encodeCommit(tree, parents, ident, normalizeMessage(message), signature))
}

func (s *Store) commit(treeID githash.Hash, targetRef, message string, signer *keys.Actor) (githash.Hash, error) {
	// read tip
	s.mu.Lock()
	cur, has := s.refs[targetRef]
	if _, err := s.get(treeID, "tree"); err != nil {
		s.mu.Unlock()
		return s.ZeroHash(), fmt.Errorf("unable to create commit: %w", err)
	}
	var parents []githash.Hash
	old := s.ZeroHash()
	if has {
		parents = []githash.Hash{append(githash.Hash{}, cur...)}
		old = parents[0]
	}
	id := s.createCommitLocked(treeID, parents, message, signer)
	s.mu.Unlock()
	// compare-and-set (separate critical section, like git update-ref <new> <old>)
	return id, s.CheckAndSetReference(targetRef, id, old)
}

func (s *Store) Commit(treeID githash.Hash, targetRef, message string, sign bool) (githash.Hash, error) {
	var signer *keys.Actor
	if sign {
		if s.SigningKey == nil {
			return s.ZeroHash(), errors.New("memstore: unable to create commit: no signing key configured")
		}
		signer = s.SigningKey
	}
	return s.commit(treeID, targetRef, message, signer)
}

func (s *Store) CommitUsingSpecificKey(treeID githash.Hash, targetRef, message string, signingKeyPEMBytes []byte) (githash.Hash, error) {
	signer := keys.ByPEM(signingKeyPEMBytes)
	if signer == nil {
		return s.ZeroHash(), errors.New("memstore: unknown signing key")
	}
	return s.commit(treeID, targetRef, message, signer)
}

func (s *Store) GetCommitTreeID(commitID githash.Hash) (githash.Hash, error) {
	s.mu.Lock()
	defer s.mu.Unlock()
	c, err := s.parseCommit(commitID)
	if err != nil {
		return s.ZeroHash(), err
	}
	return c.Tree, nil
}

func (s *Store) GetCommitMessage(commitID githash.Hash) (string, error) {
	s.mu.Lock()
	defer s.mu.Unlock()
	c, err := s.parseCommit(commitID)
	if err != nil {
		return "", err
	}
	return strings.TrimSpace(c.Message), nil
}

func (s *Store) GetCommitParentIDs(commitID githash.Hash) ([]githash.Hash, error) {
	s.mu.Lock()
	defer s.mu.Unlock()
	c, err := s.parseCommit(commitID)
	if err != nil {
		return nil, err
	}
	if len(c.Parents) == 0 {
		return nil, nil
	}
	return append([]githash.Hash{}, c.Parents...), nil
}

func (s *Store) ancestors(id githash.Hash) (map[string]struct{}, error) {
	seen := map[string]struct{}{}
	stack := []githash.Hash{id}
	for len(stack) > 0 {
		cur := stack[len(stack)-1]
		stack = stack[:len(stack)-1]
		if _, ok := seen[string(cur)]; ok {
			continue
		}
		seen[string(cur)] = struct{}{}
		c, err := s.parseCommit(cur)
		if err != nil {
			return nil, err
		}
		stack = append(stack, c.Parents...)
	}
	return seen, nil
}

func (s *Store) KnowsCommit(commitID, ancestorID githash.Hash) (bool, error) {
	s.mu.Lock()
	defer s.mu.Unlock()
	if _, err := s.get(commitID, "commit"); err != nil {
		return false, err
	}
	if _, err := s.get(ancestorID, "commit"); err != nil {
		return false, err
	}
	// walk from commitID towards roots, stop early when found
	seen := map[string]struct{}{}
	stack := []githash.Hash{commitID}
	for len(stack) > 0 {
		cur := stack[len(stack)-1]
		stack = stack[:len(stack)-1]
		if cur.Equal(ancestorID) {
			return true, nil
		}
		if _, ok := seen[string(cur)]; ok {
			continue
		}
		seen[string(cur)] = struct{}{}
		c, err := s.parseCommit(cur)
		if err != nil {
			return false, err
		}
		stack = append(stack, c.Parents...)
	}
	return false, nil
}

func (s *Store) GetCommitsBetweenRange(commitNewID, commitOldID githash.Hash) ([]githash.Hash, error) {
	s.mu.Lock()
	defer s.mu.Unlock()
	newSet, err := s.ancestors(commitNewID)
	if err != nil {
		return nil, fmt.Errorf("unable to enumerate commits in range: %w", err)
	}
	if !commitOldID.IsZero() {
		oldSet, err := s.ancestors(commitOldID)
		if err != nil {
			return nil, fmt.Errorf("unable to enumerate commits in range: %w", err)
		}
		for k := range oldSet {
			delete(newSet, k)
		}
	}
	out := make([]githash.Hash, 0, len(newSet))
	for k := range newSet {
		out = append(out, githash.Hash(k))
	}
	sort.Slice(out, func(i, j int) bool { return out[i].String() < out[j].String() })
	return out, nil
}

func (s *Store) flatWithModes(treeID githash.Hash, prefix string, out map[string]string) error {
	raw, err := s.treeEntries(treeID)
	if err != nil {
		return err
	}
	for _, e := range raw {
		if e.isTree() {
			if err := s.flatWithModes(e.ID, prefix+e.Name+"/", out); err != nil {
				return err
			}
			continue
		}
		out[prefix+e.Name] = e.Mode + " " + e.ID.String()
	}
	return nil
}

func (s *Store) diffPaths(aTree, bTree githash.Hash) ([]string, error) {
	a := map[string]string{}
	b := map[string]string{}
	if err := s.flatWithModes(aTree, "", a); err != nil {
		return nil, err
	}
	if err := s.flatWithModes(bTree, "", b); err != nil {
		return nil, err
	}
	paths := []string{}
	for p, v := range a {
		if b[p] != v {
			paths = append(paths, p)
		}
	}
	for p := range b {
		if _, ok := a[p]; !ok {
			paths = append(paths, p)
		}
	}
	sort.Strings(paths)
	return paths, nil
}

func (s *Store) GetFilePathsChangedByCommit(commitID githash.Hash) ([]string, error) {
	s.mu.Lock()
	defer s.mu.Unlock()
	c, err := s.parseCommit(commitID)
	if err != nil {
		return nil, err
	}
	switch len(c.Parents) {
	case 0:
		all := map[string]string{}
		if err := s.flatWithModes(c.Tree, "", all); err != nil {
			return nil, err
		}
		paths := make([]string, 0, len(all))
		for p := range all {
			paths = append(paths, p)
		}
		sort.Strings(paths)
		return paths, nil
	case 1:
		p, err := s.parseCommit(c.Parents[0])
		if err != nil {
			return nil, err
		}
		paths, err := s.diffPaths(p.Tree, c.Tree)
		if err != nil || len(paths) == 0 {
			return nil, err
		}
		return paths, nil
	default:
		last, err := s.parseCommit(c.Parents[len(c.Parents)-1])
		if err != nil {
			return nil, err
		}
		if last.Tree.Equal(c.Tree) {
			return nil, nil
		}
		set := map[string]struct{}{}
		for _, pid := range c.Parents {
			p, err := s.parseCommit(pid)
			if err != nil {
				return nil, err
			}
			paths, err := s.diffPaths(p.Tree, c.Tree)
			if err != nil {
				return nil, err
			}
			for _, x := range paths {
				set[x] = struct{}{}
			}
		}
		out := make([]string, 0, len(set))
		for x := range set {
			out = append(out, x)
		}
		sort.Strings(out)
		return out, nil
	}
}

// ErrMergeUnsupported is returned for true three-way merges, which memstore
// does not model (those scenarios run on real git).
var ErrMergeUnsupported = errors.New("memstore: non-fast-forward merge trees are not modelled")

func (s *Store) GetMergeTree(commitAID, commitBID githash.Hash) (githash.Hash, error) {
	if _, err := s.GetCommitTreeID(commitBID); err != nil {
		return s.ZeroHash(), err
	}
	if commitAID.IsZero() {
		return s.GetCommitTreeID(commitBID)
	}
	if _, err := s.GetCommitTreeID(commitAID); err != nil {
		return s.ZeroHash(), err
	}
	if ok, _ := s.KnowsCommit(commitBID, commitAID); ok {
		return s.GetCommitTreeID(commitBID)
	}
	if ok, _ := s.KnowsCommit(commitAID, commitBID); ok {
		return s.GetCommitTreeID(commitAID)
	}
	return s.ZeroHash(), ErrMergeUnsupported
}

// ---------------------------------------------------------------------- tags

func encodeTag(target githash.Hash, targetType, name, ident, message, signature string) []byte {
	var b bytes.Buffer
	fmt.Fprintf(&b, "object %s\ntype %s\ntag %s\ntagger %s\n\n%s", target.String(), targetType, name, ident, message)
	b.WriteString(signature)
	return b.Bytes()
}

// CreateTag stores an annotated tag object (optionally signed) and returns its
// ID; it does not set refs/tags/<name>.
func (s *Store) CreateTag(target githash.Hash, name, message string, signer *keys.Actor) (githash.Hash, error) {
	s.mu.Lock()
	defer s.mu.Unlock()
	o, err := s.get(target, "")
	if err != nil {
		return nil, err
	}
	message = normalizeMessage(message)
	ident := s.ident()
	if s.Tick {
		s.Clock++
	}
	sig := ""
	if signer != nil {
		sig = signer.SignObject(encodeTag(target, o.typ, name, ident, message, ""))
	}
	return s.put("tag", encodeTag(target, o.typ, name, ident, message, sig)), nil
}

func splitTag(data []byte) (payload []byte, sig []byte) {
	for _, marker := range []string{"-----BEGIN SSH SIGNATURE-----", "-----BEGIN PGP SIGNATURE-----", "-----BEGIN SIGNED MESSAGE-----"} {
		if i := bytes.Index(data, []byte(marker)); i >= 0 {
			return data[:i], data[i:]
		}
	}
	return data, nil
}

func (s *Store) GetTagTarget(tagID githash.Hash) (githash.Hash, error) {
	s.mu.Lock()
	defer s.mu.Unlock()
	// `git rev-list -n 1 <id>`: peels tags to the commit; a commit resolves to itself
	cur := tagID
	for i := 0; i < 10; i++ {
		o, err := s.get(cur, "")
		if err != nil {
			return s.ZeroHash(), fmt.Errorf("unable to resolve tag's target ID: %w", err)
		}
		switch o.typ {
		case "commit":
			return cur, nil
		case "tag":
			line := strings.SplitN(string(o.data), "\n", 2)[0]
			h, err := githash.NewHash(strings.TrimPrefix(line, "object "))
			if err != nil {
				return s.ZeroHash(), err
			}
			cur = h
		default:
			return s.ZeroHash(), fmt.Errorf("unable to resolve tag's target ID: %s is a %s", cur.String(), o.typ)
		}
	}
	return s.ZeroHash(), errors.New("memstore: tag chain too deep")
}

var ErrNotCommitOrTag = errors.New("invalid object type, expected commit or tag for signature verification")

func (s *Store) GetObjectSignature(objectID githash.Hash) ([]byte, []byte, error) {
	s.mu.Lock()
	defer s.mu.Unlock()
	o, err := s.get(objectID, "")
	if err != nil {
		return nil, nil, ErrNotCommitOrTag
	}
	switch o.typ {
	case "commit":
		c, err := s.parseCommit(objectID)
		if err != nil {
			return nil, nil, err
		}
		return append([]byte{}, c.payload...), []byte(c.Signature), nil
	case "tag":
		p, sig := splitTag(o.data)
		return append([]byte{}, p...), append([]byte{}, sig...), nil
	}
	return nil, nil, ErrNotCommitOrTag
}

// -------------------------------------------------------------------- config

func (s *Store) LookupConfig(key gitstore.ConfigKey) (string, bool, error) {
	s.mu.Lock()
	defer s.mu.Unlock()
	v, ok := s.config[key]
	return v, ok, nil
}

func (s *Store) SetConfig(key gitstore.ConfigKey, value string) {
	s.mu.Lock()
	defer s.mu.Unlock()
	s.config[key] = value
}

func (s *Store) ResetDueToError(cause error, refName string, commitID githash.Hash) error {
	if err := s.SetReference(refName, commitID); err != nil {
		return fmt.Errorf("unable to reset %s to %s, caused by following error: %w", refName, commitID.String(), cause)
	}
	return cause
}

// ------------------------------------------------------------ harness access

// RawCommit exposes a parsed commit to independent walkers in the harness.
func (s *Store) RawCommit(id githash.Hash) (*Commit, error) {
	s.mu.Lock()
	defer s.mu.Unlock()
	return s.parseCommit(id)
}

// HasObject reports whether the object exists.
func (s *Store) HasObject(id githash.Hash) bool {
	s.mu.Lock()
	defer s.mu.Unlock()
	_, ok := s.objects[string(id)]
	return ok
}

// ObjectType returns the type of the object ("" if missing).
func (s *Store) ObjectType(id githash.Hash) string {
	s.mu.Lock()
	defer s.mu.Unlock()
	if o, ok := s.objects[string(id)]; ok {
		return o.typ
	}
	return ""
}

// ForceRef sets a reference without any object check (tampering).
func (s *Store) ForceRef(ref string, id githash.Hash) {
	s.mu.Lock()
	defer s.mu.Unlock()
	s.refs[ref] = append(githash.Hash{}, id...)
}

var _ gitstore.Storer = (*Store)(nil)
