package monitor

import (
	"fmt"
	"sync"
	"time"
)

// Scheduler serialises the storage calls of several client goroutines: every
// call blocks in Before until the controller grants it, and the controller
// only decides when every live client is blocked or finished. A schedule is
// the sequence of client ids granted; runs are replayable and the set of
// schedules with at most P pre-emptions is finite.
type Scheduler struct {
	mu       sync.Mutex
	cond     *sync.Cond
	n        int
	waiting  map[int]*Call // client -> pending call
	finished map[int]bool
	granted  int // client currently allowed to proceed (-1 none)
	inCall   bool
	Trace    []Call // calls in the order they were granted
	clock    int64
}

func NewScheduler(n int) *Scheduler {
	s := &Scheduler{n: n, waiting: map[int]*Call{}, finished: map[int]bool{}, granted: -1}
	s.cond = sync.NewCond(&s.mu)
	return s
}

// Hook returns the per-client hook.
func (s *Scheduler) Hook() Hook { return schedHook{s} }

type schedHook struct{ s *Scheduler }

func (h schedHook) Before(c *Call) error {
	s := h.s
	s.mu.Lock()
	s.waiting[c.Client] = c
	s.cond.Broadcast()
	for s.granted != c.Client {
		s.cond.Wait()
	}
	delete(s.waiting, c.Client)
	s.inCall = true
	s.clock++
	s.Trace = append(s.Trace, *c)
	s.mu.Unlock()
	return nil
}

func (h schedHook) After(c *Call) {
	s := h.s
	s.mu.Lock()
	s.inCall = false
	s.granted = -1
	s.clock++
	s.cond.Broadcast()
	s.mu.Unlock()
}

// Now returns the logical clock (advances at every grant and completion).
func (s *Scheduler) Now() int64 {
	s.mu.Lock()
	defer s.mu.Unlock()
	s.clock++
	return s.clock
}

// Finish marks a client as done.
func (s *Scheduler) Finish(client int) {
	s.mu.Lock()
	s.finished[client] = true
	s.cond.Broadcast()
	s.mu.Unlock()
}

// Runnable blocks until every client is either waiting at a call or finished
// and no call is in flight, then returns the sorted list of waiting clients.
func (s *Scheduler) Runnable() ([]int, error) {
	deadline := time.Now().Add(120 * time.Second)
	s.mu.Lock()
	defer s.mu.Unlock()
	for {
		if !s.inCall && s.granted == -1 && len(s.waiting)+len(s.finished) == s.n {
			out := []int{}
			for c := 0; c < s.n; c++ {
				if _, ok := s.waiting[c]; ok {
					out = append(out, c)
				}
			}
			return out, nil
		}
		if time.Now().After(deadline) {
			return nil, fmt.Errorf("scheduler watchdog: clients neither blocked nor finished")
		}
		// wake up periodically for the watchdog
		go func() { time.Sleep(200 * time.Millisecond); s.cond.Broadcast() }()
		s.cond.Wait()
	}
}

// Pending returns the call client c is blocked at.
func (s *Scheduler) Pending(c int) Call {
	s.mu.Lock()
	defer s.mu.Unlock()
	if p := s.waiting[c]; p != nil {
		return *p
	}
	return Call{}
}

// Grant lets client c perform its pending call.
func (s *Scheduler) Grant(c int) {
	s.mu.Lock()
	s.granted = c
	s.cond.Broadcast()
	s.mu.Unlock()
}
