// Package monitor wraps a gitstore.Storer so that every storage call gittuf
// makes passes through a hook: tracing, fault / abandon injection and
// deterministic scheduling all happen at this boundary, never inside gittuf.
package monitor

import (
	"fmt"
	"sync"

	"github.com/gittuf/gittuf/internal/verifharness/keys"
	"github.com/gittuf/gittuf/internal/verifharness/scen"
	"github.com/gittuf/gittuf/pkg/githash"
	"github.com/gittuf/gittuf/pkg/gitstore"
)

// Call describes one Storer call.
type Call struct {
	Seq    int
	Client int
	Method string
	Arg    string // the reference name for reference/commit calls, "" otherwise
	Write  bool
}

var writeMethods = map[string]bool{
	"SetReference": true, "DeleteReference": true, "WriteBlob": true, "WriteTree": true,
	"Commit": true, "CommitUsingSpecificKey": true, "ResetDueToError": true,
}

// Hook is consulted around every call. Before may return an error to inject a
// fault (the call is then not performed). After runs once the call has been
// performed (also when it failed by itself).
type Hook interface {
	Before(c *Call) error
	After(c *Call)
}

// Store wraps a backend.
type Store struct {
	Inner  scen.Backend
	Client int
	Hook   Hook

	mu  sync.Mutex
	seq int
}

func Wrap(inner scen.Backend, client int, h Hook) *Store {
	return &Store{Inner: inner, Client: client, Hook: h}
}

func (s *Store) call(method, arg string) (*Call, error) {
	s.mu.Lock()
	s.seq++
	c := &Call{Seq: s.seq, Client: s.Client, Method: method, Arg: arg, Write: writeMethods[method]}
	s.mu.Unlock()
	if s.Hook != nil {
		if err := s.Hook.Before(c); err != nil {
			return c, err
		}
	}
	return c, nil
}

func (s *Store) done(c *Call) {
	if s.Hook != nil {
		s.Hook.After(c)
	}
}

// Calls returns the number of calls made so far.
func (s *Store) Calls() int {
	s.mu.Lock()
	defer s.mu.Unlock()
	return s.seq
}

func (s *Store) GetReference(refName string) (githash.Hash, error) {
	c, err := s.call("GetReference", refName)
	if err != nil {
		return s.Inner.ZeroHash(), err
	}
	defer s.done(c)
	return s.Inner.GetReference(refName)
}

func (s *Store) SetReference(refName string, gitID githash.Hash) error {
	c, err := s.call("SetReference", refName)
	if err != nil {
		return err
	}
	defer s.done(c)
	return s.Inner.SetReference(refName, gitID)
}

func (s *Store) DeleteReference(refName string) error {
	c, err := s.call("DeleteReference", refName)
	if err != nil {
		return err
	}
	defer s.done(c)
	return s.Inner.DeleteReference(refName)
}

func (s *Store) ReadBlob(blobID githash.Hash) ([]byte, error) {
	c, err := s.call("ReadBlob", "")
	if err != nil {
		return nil, err
	}
	defer s.done(c)
	return s.Inner.ReadBlob(blobID)
}

func (s *Store) WriteBlob(contents []byte) (githash.Hash, error) {
	c, err := s.call("WriteBlob", "")
	if err != nil {
		return nil, err
	}
	defer s.done(c)
	return s.Inner.WriteBlob(contents)
}

func (s *Store) EmptyTree() (githash.Hash, error) {
	c, err := s.call("EmptyTree", "")
	if err != nil {
		return nil, err
	}
	defer s.done(c)
	return s.Inner.EmptyTree()
}

func (s *Store) WriteTree(entries []gitstore.TreeEntry) (githash.Hash, error) {
	c, err := s.call("WriteTree", "")
	if err != nil {
		return nil, err
	}
	defer s.done(c)
	return s.Inner.WriteTree(entries)
}

func (s *Store) GetAllFilesInTree(treeID githash.Hash) (map[string]githash.Hash, error) {
	c, err := s.call("GetAllFilesInTree", "")
	if err != nil {
		return nil, err
	}
	defer s.done(c)
	return s.Inner.GetAllFilesInTree(treeID)
}

func (s *Store) GetEntriesInTree(treeID githash.Hash) ([]gitstore.TreeEntry, error) {
	c, err := s.call("GetEntriesInTree", "")
	if err != nil {
		return nil, err
	}
	defer s.done(c)
	return s.Inner.GetEntriesInTree(treeID)
}

func (s *Store) GetPathIDInTree(treeID githash.Hash, treePath string) (githash.Hash, error) {
	c, err := s.call("GetPathIDInTree", "")
	if err != nil {
		return nil, err
	}
	defer s.done(c)
	return s.Inner.GetPathIDInTree(treeID, treePath)
}

func (s *Store) GetCommitTreeID(commitID githash.Hash) (githash.Hash, error) {
	c, err := s.call("GetCommitTreeID", "")
	if err != nil {
		return nil, err
	}
	defer s.done(c)
	return s.Inner.GetCommitTreeID(commitID)
}

func (s *Store) GetCommitMessage(commitID githash.Hash) (string, error) {
	c, err := s.call("GetCommitMessage", "")
	if err != nil {
		return "", err
	}
	defer s.done(c)
	return s.Inner.GetCommitMessage(commitID)
}

func (s *Store) GetCommitParentIDs(commitID githash.Hash) ([]githash.Hash, error) {
	c, err := s.call("GetCommitParentIDs", "")
	if err != nil {
		return nil, err
	}
	defer s.done(c)
	return s.Inner.GetCommitParentIDs(commitID)
}

func (s *Store) GetCommitsBetweenRange(commitNewID, commitOldID githash.Hash) ([]githash.Hash, error) {
	c, err := s.call("GetCommitsBetweenRange", "")
	if err != nil {
		return nil, err
	}
	defer s.done(c)
	return s.Inner.GetCommitsBetweenRange(commitNewID, commitOldID)
}

func (s *Store) GetFilePathsChangedByCommit(commitID githash.Hash) ([]string, error) {
	c, err := s.call("GetFilePathsChangedByCommit", "")
	if err != nil {
		return nil, err
	}
	defer s.done(c)
	return s.Inner.GetFilePathsChangedByCommit(commitID)
}

func (s *Store) KnowsCommit(commitID, ancestorID githash.Hash) (bool, error) {
	c, err := s.call("KnowsCommit", "")
	if err != nil {
		return false, err
	}
	defer s.done(c)
	return s.Inner.KnowsCommit(commitID, ancestorID)
}

func (s *Store) GetMergeTree(commitAID, commitBID githash.Hash) (githash.Hash, error) {
	c, err := s.call("GetMergeTree", "")
	if err != nil {
		return nil, err
	}
	defer s.done(c)
	return s.Inner.GetMergeTree(commitAID, commitBID)
}

func (s *Store) GetTagTarget(tagID githash.Hash) (githash.Hash, error) {
	c, err := s.call("GetTagTarget", "")
	if err != nil {
		return nil, err
	}
	defer s.done(c)
	return s.Inner.GetTagTarget(tagID)
}

func (s *Store) GetObjectSignature(objectID githash.Hash) ([]byte, []byte, error) {
	c, err := s.call("GetObjectSignature", "")
	if err != nil {
		return nil, nil, err
	}
	defer s.done(c)
	return s.Inner.GetObjectSignature(objectID)
}

// Commit is split into its two storage steps when the inner store supports it
// (memstore): read-tip + create-object, then compare-and-set. Both steps pass
// through the hook as one logical "Commit" call; schedulers that need the finer
// grain use CommitSplit.
func (s *Store) Commit(treeID githash.Hash, targetRef, message string, sign bool) (githash.Hash, error) {
	c, err := s.call("Commit", targetRef)
	if err != nil {
		return s.Inner.ZeroHash(), err
	}
	defer s.done(c)
	return s.Inner.Commit(treeID, targetRef, message, sign)
}

func (s *Store) CommitUsingSpecificKey(treeID githash.Hash, targetRef, message string, signingKeyPEMBytes []byte) (githash.Hash, error) {
	c, err := s.call("CommitUsingSpecificKey", targetRef)
	if err != nil {
		return s.Inner.ZeroHash(), err
	}
	defer s.done(c)
	return s.Inner.CommitUsingSpecificKey(treeID, targetRef, message, signingKeyPEMBytes)
}

func (s *Store) ZeroHash() githash.Hash { return s.Inner.ZeroHash() }

func (s *Store) LookupConfig(key gitstore.ConfigKey) (string, bool, error) {
	c, err := s.call("LookupConfig", "")
	if err != nil {
		return "", false, err
	}
	defer s.done(c)
	return s.Inner.LookupConfig(key)
}

func (s *Store) ResetDueToError(cause error, refName string, commitID githash.Hash) error {
	c, err := s.call("ResetDueToError", refName)
	if err != nil {
		return fmt.Errorf("unable to reset %s: %w (caused by %w)", refName, err, cause)
	}
	defer s.done(c)
	return s.Inner.ResetDueToError(cause, refName, commitID)
}

// scen.Backend extras (not storage calls of gittuf; pass through unhooked)
func (s *Store) SetSigner(a *keys.Actor) { s.Inner.SetSigner(a) }
func (s *Store) CommitFiles(files map[string]string, parents []githash.Hash, message string, signer *keys.Actor) (githash.Hash, error) {
	return s.Inner.CommitFiles(files, parents, message, signer)
}
func (s *Store) SetRef(ref string, id githash.Hash) error { return s.Inner.SetRef(ref, id) }
func (s *Store) Tag(target githash.Hash, name, message string, signer *keys.Actor) (githash.Hash, error) {
	return s.Inner.Tag(target, name, message, signer)
}

var _ scen.Backend = (*Store)(nil)

// ------------------------------------------------------------------ tracer

// Tracer records every call.
type Tracer struct {
	mu    sync.Mutex
	Calls []Call
}

func (t *Tracer) Before(c *Call) error {
	t.mu.Lock()
	t.Calls = append(t.Calls, *c)
	t.mu.Unlock()
	return nil
}
func (t *Tracer) After(*Call) {}

// Signature is the sequence of method names (for "distinct call sequences").
func (t *Tracer) Signature() string {
	t.mu.Lock()
	defer t.mu.Unlock()
	s := ""
	for _, c := range t.Calls {
		s += c.Method[:3] + c.Method[len(c.Method)-1:] + ","
	}
	return s
}

// ---------------------------------------------------------------- injector

// ErrInjected is the synthetic storage failure.
var ErrInjected = fmt.Errorf("verif: injected storage failure")

// Injector fails the K-th call (Mode "fault": the call is not performed and
// returns ErrInjected) or parks the calling goroutine forever right after the
// K-th call was performed (Mode "abandon": nothing after it runs, no defer
// fires - what a process that stops dead looks like to the store).
type Injector struct {
	K      int
	Mode   string
	mu     sync.Mutex
	n      int
	Parked chan struct{} // closed when the goroutine has been parked
	Hit    *Call
	block  chan struct{}
}

func NewInjector(k int, mode string) *Injector {
	return &Injector{K: k, Mode: mode, Parked: make(chan struct{}), block: make(chan struct{})}
}

func (i *Injector) Before(c *Call) error {
	i.mu.Lock()
	i.n++
	hit := i.n == i.K
	if hit {
		cc := *c
		i.Hit = &cc
	}
	i.mu.Unlock()
	if hit && i.Mode == "fault" {
		return ErrInjected
	}
	return nil
}

func (i *Injector) After(c *Call) {
	if i.Mode != "abandon" {
		return
	}
	i.mu.Lock()
	hit := i.Hit != nil && i.Hit.Seq == c.Seq && i.n == i.K
	i.mu.Unlock()
	if hit {
		close(i.Parked)
		<-i.block // never released
	}
}
