package oracle

import (
	"fmt"

	"github.com/gittuf/gittuf/internal/verifharness/scen"
)

// RefEntry is the abstract view of one log entry recorded for a reference.
type RefEntry struct {
	Event     int
	Kind      string // push | propagation | tag
	Content   string
	Valid     bool // authorized by the policy/attestations immediately preceding it
	Protected bool
	HasPolicy bool
	Skipped   bool
	Signer    string
	Approvers []string
	Credited  map[string]bool
	// tag entries
	TagObject    int  // event that created the tag object this entry records
	TagSignerOK  bool // the tag object is signed by a principal of a consulted rule
	CurrentAtEnd bool // the tag ref still points at this entry's tag object at the end of the history
}

// Verdict of the reference model for one reference.
type Verdict struct {
	Judged   bool
	Accept   bool
	Reason   string // why not judged / why rejected
	TipEvent int    // event whose target is the latest entry for the ref
	Entries  []RefEntry
	// Offender classifies the entry the model rejects the history for (the first
	// one in log order): propagation-entry | tag-entry | reference-entry | recovery
	Offender string
}

type approvalKey struct {
	Ref      string
	FromPush int
	Content  string // tree content, or "tag:<push event>" for tag approvals
}

// RefEntries computes, in log order, the entries for ref with their validity
// under the policy and attestation state immediately preceding each.
func RefEntries(h *scen.History, ref string) []RefEntry {
	skipped := map[int]bool{}
	for _, ev := range h.Events {
		if ev.Kind == "annotate" && ev.Skip {
			for _, t := range ev.Targets {
				skipped[t] = true
			}
		}
	}
	var pol *scen.Policy
	approvals := map[approvalKey]map[string]bool{}
	lastPush := -1 // latest earlier entry (push/propagation/tag) for ref
	out := []RefEntry{}
	for i, ev := range h.Events {
		switch ev.Kind {
		case "policy", "rawpolicy":
			pol = ev.Policy
		case "approve":
			k := approvalKey{ev.Ref, ev.FromPush, ev.Content}
			if ev.TagOn > 0 {
				from := ev.FromPush
				if from >= 0 && h.Events[from].Kind == "tag" && h.Events[from].Reuse > 0 {
					from = h.Events[from].Reuse - 1
				}
				k = approvalKey{ev.Ref, from, fmt.Sprintf("tag:%d", ev.TagOn-1)}
			}
			if approvals[k] == nil {
				approvals[k] = map[string]bool{}
			}
			for _, a := range ev.Approvers {
				approvals[k][a] = true
			}
		case "push", "propagation", "tag":
			if ev.Ref != ref {
				continue
			}
			e := RefEntry{Event: i, Kind: ev.Kind, Content: ev.Content, Skipped: skipped[i], Signer: ev.Signer, HasPolicy: pol != nil}
			if ev.Kind == "push" {
				for a := range approvals[approvalKey{ref, lastPush, ev.Content}] {
					e.Approvers = append(e.Approvers, a)
				}
			}
			if ev.Kind == "tag" {
				e.TagObject = i
				if ev.Reuse > 0 {
					e.TagObject = ev.Reuse - 1
				}
				// the approval names (ref, from = object recorded by the previous entry, to = tagged commit)
				from := lastPush
				if from >= 0 && h.Events[from].Kind == "tag" && h.Events[from].Reuse > 0 {
					from = h.Events[from].Reuse - 1
				}
				for a := range approvals[approvalKey{ref, from, fmt.Sprintf("tag:%d", h.Events[e.TagObject].OnPush)}] {
					e.Approvers = append(e.Approvers, a)
				}
			}
			if pol != nil {
				e.Protected, e.Valid, e.Credited = Authorized(*pol, "git:"+ref, ev.Signer, e.Approvers)
				if ev.Kind == "tag" {
					// the tag object itself must carry the signature of one principal of a consulted rule
					ts := h.Events[e.TagObject].TagSigner
					if !e.Protected {
						e.TagSignerOK = true
					} else if ts != "" {
						idx := pol.PrincipalIndex()
						for _, cr := range Consulted(*pol, "git:"+ref) {
							if len(owners(idx, cr.Rule, ts)) > 0 && cr.Rule.Threshold >= 1 {
								e.TagSignerOK = true
							}
						}
					}
					e.Valid = e.Valid && e.TagSignerOK
				}
			}
			out = append(out, e)
			lastPush = i
		}
	}
	// which tag object does the ref hold at the end?
	final := -1
	for _, e := range out {
		if e.Kind == "tag" {
			final = e.TagObject
		}
	}
	for i := range out {
		out[i].CurrentAtEnd = out[i].Kind == "tag" && out[i].TagObject == final
	}
	return out
}

// EvalRef is the C01/C07 reference model: full verification of ref accepts iff
// every entry for ref is authorized by the state preceding it, except that a
// violation is tolerated when it is skipped, a later unskipped entry restores
// the content of the last unskipped entry before it, and everything in between
// is skipped too.
func EvalRef(h *scen.History, ref string) Verdict {
	return EvalRefFrom(h, ref, -1)
}

// EvalRefFrom is EvalRef for a verification that starts at the entry recorded
// by event startEvent (inclusive) instead of the first entry of the ref. The
// search for the last good state may still look before the start.
func EvalRefFrom(h *scen.History, ref string, startEvent int) Verdict {
	es := RefEntries(h, ref)
	v := Verdict{Entries: es, TipEvent: -1}
	if len(es) == 0 {
		v.Reason = "no entry for ref"
		return v
	}
	v.TipEvent = es[len(es)-1].Event
	v.Judged = true
	i := 0
	if startEvent >= 0 {
		i = -1
		for j := range es {
			if es[j].Event == startEvent {
				i = j
			}
		}
		if i < 0 {
			v.Judged = false
			v.Reason = "start event is not an entry of the ref"
			return v
		}
	}
	for i < len(es) {
		e := es[i]
		if e.Kind == "propagation" {
			// a propagation entry is an entry recorded for the reference: it must be
			// authorized like any other; it cannot be revoked (only reference entries can)
			if !e.HasPolicy {
				v.Judged = false
				v.Reason = "entry recorded before any policy exists"
				return v
			}
			if e.Valid {
				i++
				continue
			}
			v.Accept = false
			v.Reason = fmt.Sprintf("event %d (propagation entry) unauthorized", e.Event)
			v.Offender = "propagation-entry"
			return v
		}
		if e.Kind == "tag" {
			if !e.HasPolicy {
				v.Judged = false
				v.Reason = "entry recorded before any policy exists"
				return v
			}
			if !e.CurrentAtEnd {
				v.Judged = false
				v.Reason = "tag entry that does not match the current tag ref (not judged)"
				return v
			}
			if e.Valid {
				i++
				continue
			}
			if e.Skipped {
				v.Judged = false
				v.Reason = "revoked tag entry (recovery of tags is not modelled)"
				return v
			}
			v.Accept = false
			v.Reason = fmt.Sprintf("event %d (tag entry) unauthorized", e.Event)
			v.Offender = "tag-entry"
			return v
		}
		if !e.HasPolicy {
			v.Judged = false
			v.Reason = "entry recorded before any policy exists"
			return v
		}
		if e.Valid {
			i++
			continue
		}
		if !e.Skipped {
			v.Accept = false
			v.Reason = fmt.Sprintf("event %d unauthorized and not revoked", e.Event)
			v.Offender = "reference-entry"
			return v
		}
		// recovery
		lastGood := -1
		for j := i - 1; j >= 0; j-- {
			if es[j].Kind == "push" && !es[j].Skipped {
				lastGood = j
				break
			}
		}
		if lastGood < 0 {
			v.Judged = false
			v.Reason = "first unskipped state of the ref is the violation"
			return v
		}
		fix := -1
		for j := i + 1; j < len(es); j++ {
			if es[j].Kind == "push" && !es[j].Skipped && es[j].Content == es[lastGood].Content {
				fix = j
				break
			}
		}
		if fix < 0 {
			v.Accept = false
			v.Reason = fmt.Sprintf("event %d revoked but never repaired", e.Event)
			v.Offender = "recovery"
			return v
		}
		for j := i + 1; j < fix; j++ {
			if es[j].Kind == "push" && !es[j].Skipped {
				v.Accept = false
				v.Reason = fmt.Sprintf("event %d between violation and fix is not revoked", es[j].Event)
				v.Offender = "recovery"
				return v
			}
		}
		if !es[fix].Valid {
			v.Judged = false
			v.Reason = "fix entry recorded by an unauthorized actor (statement ambiguity)"
			return v
		}
		i = fix + 1
	}
	v.Accept = true
	return v
}
