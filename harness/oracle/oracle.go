// Package oracle holds the small reference models. They are evaluated on the
// abstract scenario only: no git object, envelope, signature or commit message
// produced by gittuf is ever read here.
package oracle

import (
	"strings"

	"github.com/gittuf/gittuf/internal/verifharness/scen"
)

// Match implements the three pattern classes the generators restrict
// themselves to: literal, "prefix*" and "*". (A '*' in gittuf's fnmatch with
// flags 0 also matches '/', so prefix matching is plain HasPrefix.)
func Match(pattern, path string) bool {
	switch {
	case pattern == "*":
		return true
	case strings.HasSuffix(pattern, "*") && !strings.ContainsAny(pattern[:len(pattern)-1], "*?[\\"):
		return strings.HasPrefix(path, pattern[:len(pattern)-1])
	default:
		return pattern == path
	}
}

func ruleMatches(r scen.Rule, path string) bool {
	for _, p := range r.Patterns {
		if Match(p, path) {
			return true
		}
	}
	return false
}

// ConsultedRule is a rule reached by the walk, with the file it lives in.
type ConsultedRule struct {
	File string
	Rule scen.Rule
}

// Consulted is the documented delegation walk (docs/design-document.md,
// "Identifying Authorized Signers"): pre-order depth first over the delegation
// graph rooted at the primary rule file; a delegated file (a rule file named
// like the rule) is entered only through a matching rule and only once; the
// allow rule is never consulted; a matching terminating rule that has a
// delegated file cuts off the later rules of its own file. Callers compare the
// result as a set (the statement fixes which rules are consulted, not the
// order in which their verifiers are tried).
func Consulted(p scen.Policy, path string) []ConsultedRule {
	files := map[string]scen.RuleFile{}
	for _, f := range p.Files {
		files[f.Name] = f
	}
	root, ok := files["targets"]
	if !ok {
		return nil
	}
	seen := map[string]bool{"targets": true}
	out := []ConsultedRule{}
	var visit func(f scen.RuleFile)
	visit = func(f scen.RuleFile) {
		for _, r := range f.Rules {
			if !ruleMatches(r, path) {
				continue
			}
			out = append(out, ConsultedRule{File: f.Name, Rule: r})
			if seen[r.Name] {
				continue
			}
			if df, has := files[r.Name]; has {
				seen[r.Name] = true
				visit(df)
				if r.Terminating {
					return
				}
			}
		}
	}
	visit(root)
	return out
}

// Owners returns, for a rule, the abstract principals (by ID) that own key k.
func owners(idx map[string]scen.Principal, r scen.Rule, key string) []string {
	out := []string{}
	for _, pid := range r.Principals {
		pr, ok := idx[pid]
		if !ok {
			continue
		}
		for _, k := range pr.Keys {
			if k == key {
				out = append(out, pid)
				break
			}
		}
	}
	return out
}

// Credited returns the distinct principals of rule r credited by the entry
// signer and the approver keys (sound upper bound; exact without shared keys).
func Credited(idx map[string]scen.Principal, r scen.Rule, signer string, approvers []string) map[string]bool {
	c := map[string]bool{}
	if signer != "" {
		for _, o := range owners(idx, r, signer) {
			c[o] = true
		}
	}
	for _, a := range approvers {
		for _, o := range owners(idx, r, a) {
			c[o] = true
		}
	}
	return c
}

// Authorized decides one change under policy p for namespace path (e.g.
// "git:refs/heads/main"): protected reports whether any rule was consulted;
// ok whether some consulted rule has >= threshold credited principals.
// satisfied lists the credited principals of the first satisfied rule.
func Authorized(p scen.Policy, path, signer string, approvers []string) (protected, ok bool, satisfied map[string]bool) {
	rules := Consulted(p, path)
	if len(rules) == 0 {
		return false, true, nil
	}
	idx := p.PrincipalIndex()
	for _, cr := range rules {
		if cr.Rule.Threshold < 1 || len(cr.Rule.Principals) == 0 {
			continue
		}
		c := Credited(idx, cr.Rule, signer, approvers)
		if len(c) >= cr.Rule.Threshold {
			return true, true, c
		}
	}
	return true, false, nil
}
