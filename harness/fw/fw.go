// Package fw is the small framework every check runs on: sharded execution,
// counters, three-valued verdict bookkeeping, known-finding matching, evidence
// and replay files. It contains no gittuf logic.
package fw

import (
	"crypto/sha256"
	"encoding/hex"
	"encoding/json"
	"fmt"
	"math/rand/v2"
	"os"
	"path/filepath"
	"runtime/debug"
	"sort"
	"strings"
	"sync"
)

// Violation is one observed refutation of a property.
type Violation struct {
	Kind   string            `json:"kind"`
	Attrs  map[string]string `json:"attrs,omitempty"`
	What   string            `json:"what"`
	Replay json.RawMessage   `json:"replay,omitempty"`
}

// Signature is the cause-discriminating identity of a violation.
func (v *Violation) Signature() string {
	keys := make([]string, 0, len(v.Attrs))
	for k := range v.Attrs {
		keys = append(keys, k)
	}
	sort.Strings(keys)
	parts := []string{v.Kind}
	for _, k := range keys {
		parts = append(parts, k+"="+v.Attrs[k])
	}
	return strings.Join(parts, "|")
}

// Partial is what one shard hands back to the parent.
type Partial struct {
	Evaluations  int64               `json:"evaluations"`
	Nontrivial   []string            `json:"nontrivial"`
	Samples      []any               `json:"samples"`
	Violations   []Violation         `json:"violations"`
	Inconclusive map[string]int64    `json:"inconclusive"`
	NotJudged    map[string]int64    `json:"not_judged"`
	Counters     map[string]int64    `json:"counters"`
	Sets         map[string][]string `json:"sets"`
	Notes        map[string]any      `json:"notes"`
}

// Ctx is handed to a check's Run function.
type Ctx struct {
	Prop      string
	Tier      string
	Seed      uint64
	Shard     int
	NShards   int
	Race      bool   // binary was built with -race
	WorkDir   string // scratch directory for this shard (outside /repo and /verif)
	SharedDir string // directory shared with the parent process (files for the Post step)

	mu         sync.Mutex
	evals      int64
	nontrivial map[string]struct{}
	samples    []any
	violations []Violation
	violSigs   map[string]int
	inconcl    map[string]int64
	notJudged  map[string]int64
	counters   map[string]int64
	sets       map[string]map[string]struct{}
	notes      map[string]any
	maxSamples int
}

func NewCtx(prop, tier string, seed uint64, shard, nshards int) *Ctx {
	return &Ctx{
		Prop: prop, Tier: tier, Seed: seed, Shard: shard, NShards: nshards,
		nontrivial: map[string]struct{}{},
		violSigs:   map[string]int{},
		inconcl:    map[string]int64{},
		notJudged:  map[string]int64{},
		counters:   map[string]int64{},
		sets:       map[string]map[string]struct{}{},
		notes:      map[string]any{},
		maxSamples: 3,
	}
}

func (c *Ctx) Quick() bool    { return c.Tier != "thorough" }
func (c *Ctx) Thorough() bool { return c.Tier == "thorough" }

// Pick returns q in the quick tier and t in the thorough tier.
func (c *Ctx) Pick(q, t int) int {
	if c.Thorough() {
		return t
	}
	return q
}

// Mine reports whether case index i belongs to this shard.
func (c *Ctx) Mine(i int) bool {
	if c.NShards <= 1 {
		return true
	}
	return i%c.NShards == c.Shard
}

// Rand returns a deterministic PRNG for (seed, stream).
func (c *Ctx) Rand(stream uint64) *rand.Rand {
	return rand.New(rand.NewPCG(c.Seed*0x9E3779B97F4A7C15+0x1234567, stream*0xBF58476D1CE4E5B9+0x94D049BB133111EB))
}

func (c *Ctx) Eval(n int) {
	c.mu.Lock()
	c.evals += int64(n)
	c.mu.Unlock()
}

// Nontrivial records a distinct non-trivial case, identified by key (hashed).
func (c *Ctx) Nontrivial(key string) {
	h := sha256.Sum256([]byte(key))
	s := hex.EncodeToString(h[:8])
	c.mu.Lock()
	c.nontrivial[s] = struct{}{}
	c.mu.Unlock()
}

// NontrivialCounted adds n cases that are distinct by construction (an
// enumeration never visits a case twice), without storing their hashes.
func (c *Ctx) NontrivialCounted(n int) {
	c.mu.Lock()
	c.counters["distinct_by_enumeration"] += int64(n)
	c.mu.Unlock()
}

func (c *Ctx) Sample(v any) {
	c.mu.Lock()
	if len(c.samples) < c.maxSamples {
		c.samples = append(c.samples, v)
	}
	c.mu.Unlock()
}

func (c *Ctx) Count(key string, n int) {
	c.mu.Lock()
	c.counters[key] += int64(n)
	c.mu.Unlock()
}

// SetAdd adds member to a named set whose size is reported in the evidence
// (distinct states / call sequences / schedules seen).
func (c *Ctx) SetAdd(set, member string) {
	if len(member) > 80 {
		h := sha256.Sum256([]byte(member))
		member = hex.EncodeToString(h[:8])
	}
	c.mu.Lock()
	m := c.sets[set]
	if m == nil {
		m = map[string]struct{}{}
		c.sets[set] = m
	}
	m[member] = struct{}{}
	c.mu.Unlock()
}

func (c *Ctx) Note(key string, v any) {
	c.mu.Lock()
	c.notes[key] = v
	c.mu.Unlock()
}

func (c *Ctx) Inconclusive(reason string) {
	c.mu.Lock()
	c.inconcl[reason]++
	c.mu.Unlock()
}

func (c *Ctx) NotJudged(reason string) {
	c.mu.Lock()
	c.notJudged[reason]++
	c.mu.Unlock()
}

// Violation records a refutation. At most 3 witnesses are kept per signature.
func (c *Ctx) Violation(kind string, attrs map[string]string, what string, replay any) {
	v := Violation{Kind: kind, Attrs: attrs, What: what}
	if replay != nil {
		b, err := json.Marshal(replay)
		if err == nil {
			v.Replay = b
		}
	}
	sig := v.Signature()
	c.mu.Lock()
	c.violSigs[sig]++
	if c.violSigs[sig] <= 3 {
		c.violations = append(c.violations, v)
	}
	c.counters["violations_observed"]++
	c.mu.Unlock()
}

// Guard runs f and turns a panic into a violation of kind "panic".
func (c *Ctx) Guard(caseDesc any, f func()) (panicked bool) {
	defer func() {
		if r := recover(); r != nil {
			panicked = true
			st := string(debug.Stack())
			where := panicSite(st)
			c.Violation("panic", map[string]string{"site": where}, fmt.Sprintf("panic: %v at %s", r, where), map[string]any{"case": caseDesc, "panic": fmt.Sprint(r), "stack": st})
		}
	}()
	f()
	return false
}

// panicSite extracts the first gittuf (non-harness) frame of a stack.
func panicSite(stack string) string {
	lines := strings.Split(stack, "\n")
	for _, l := range lines {
		l = strings.TrimSpace(l)
		if strings.HasPrefix(l, "github.com/gittuf/gittuf/") && !strings.Contains(l, "verifharness") {
			if i := strings.Index(l, "("); i > 0 {
				l = l[:i]
			}
			return strings.TrimPrefix(l, "github.com/gittuf/gittuf/")
		}
	}
	return "unknown"
}

func (c *Ctx) Partial() *Partial {
	c.mu.Lock()
	defer c.mu.Unlock()
	p := &Partial{
		Evaluations:  c.evals,
		Samples:      c.samples,
		Violations:   c.violations,
		Inconclusive: c.inconcl,
		NotJudged:    c.notJudged,
		Counters:     c.counters,
		Notes:        c.notes,
		Sets:         map[string][]string{},
	}
	for k := range c.nontrivial {
		p.Nontrivial = append(p.Nontrivial, k)
	}
	for name, m := range c.sets {
		for k := range m {
			p.Sets[name] = append(p.Sets[name], k)
		}
	}
	return p
}

// Scratch returns (creating it) a fresh directory under the shard's work dir.
func (c *Ctx) Scratch(name string) string {
	d := filepath.Join(c.WorkDir, name)
	if err := os.MkdirAll(d, 0o755); err != nil {
		panic(err)
	}
	return d
}

// Check describes one property's machinery.
type Check struct {
	ID            string
	Level         string // evidence level
	Rule          string // how cases are generated and what makes one non-trivial/distinct
	Assumptions   []string
	MinNontrivial int                              // below this the run "observed nothing" and fails as machinery error
	MaxShards     int                              // 0 = default (NumCPU)
	UsesRace      bool                             // the check has a -race pass (run by a second invocation with the race binary)
	Exhaustive    func(tier string) (bool, string) // optional: which sub-space is enumerated completely
	Run           func(c *Ctx)
	// RaceRun, if set, is executed by the -race binary as an extra pass.
	RaceRun func(c *Ctx)
	// Post runs in the parent after all shards finished (e.g. an offline checker
	// over event logs the shards wrote to SharedDir). It returns extra violations
	// and notes; an error is a machinery failure.
	Post func(sharedDir, verifDir string) ([]Violation, map[string]any, error)
	// Replay re-executes one recorded case and prints what it observes.
	Replay func(c *Ctx, raw json.RawMessage) error
}

var registry = map[string]*Check{}

func Register(ch *Check)      { registry[ch.ID] = ch }
func Lookup(id string) *Check { return registry[id] }
func All() []string {
	ids := []string{}
	for k := range registry {
		ids = append(ids, k)
	}
	sort.Strings(ids)
	return ids
}

// Hash returns a short stable hash usable as a distinctness key.
func Hash(parts ...any) string {
	b, _ := json.Marshal(parts)
	h := sha256.Sum256(b)
	return hex.EncodeToString(h[:8])
}
