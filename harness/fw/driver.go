package fw

import (
	"bytes"
	"encoding/json"
	"flag"
	"fmt"
	"os"
	"os/exec"
	"path/filepath"
	"runtime"
	"runtime/pprof"
	"sort"
	"strconv"
	"strings"
	"sync"
	"time"
)

// KnownFindings is the committed, read-only list of genuine defects that are
// recorded instead of repaired.
type KnownFindings struct {
	Known []KnownFinding `json:"known"`
	Fixed []string       `json:"fixed"`
}

type KnownFinding struct {
	Property string            `json:"property"`
	Kind     string            `json:"kind"`
	Attrs    map[string]string `json:"attrs"`
	What     string            `json:"what"`
}

func (k *KnownFinding) matches(prop string, v *Violation) bool {
	if k.Property != prop || k.Kind != v.Kind {
		return false
	}
	// exact attribute match: a different way of breaking the property lands outside
	if len(k.Attrs) != len(v.Attrs) {
		return false
	}
	for a, val := range k.Attrs {
		if v.Attrs[a] != val {
			return false
		}
	}
	return true
}

type evidence struct {
	PropertyID  string         `json:"property_id"`
	Tier        string         `json:"tier"`
	Seed        int64          `json:"seed"`
	Level       string         `json:"level"`
	Coverage    map[string]any `json:"coverage"`
	Assumptions []string       `json:"assumptions"`
	WallS       float64        `json:"wall_s"`
	Violations  int            `json:"violations"`
}

// Main is the entry point of the verifcheck binary.
func Main(raceBuild bool) {
	var (
		prop     = flag.String("prop", "", "property id (C01..C20)")
		tier     = flag.String("tier", "quick", "quick|thorough")
		seed     = flag.Uint64("seed", 1, "PRNG seed")
		shard    = flag.Int("shard", -1, "internal: shard index")
		nshards  = flag.Int("nshards", 0, "number of worker processes (0 = auto)")
		out      = flag.String("out", "", "internal: partial output file")
		replay   = flag.String("replay", "", "replay file")
		verifDir = flag.String("verif", "/verif", "verif directory")
		work     = flag.String("work", "", "scratch directory root")
		racePass = flag.Bool("racepass", false, "internal: run the check's RaceRun instead of Run")
		raceBin  = flag.String("racebin", "", "path of the -race build of this binary (parent only)")
		list     = flag.Bool("list", false, "list checks")
	)
	flag.Parse()
	if *list {
		for _, id := range All() {
			fmt.Println(id)
		}
		return
	}
	ch := Lookup(*prop)
	if ch == nil {
		fmt.Fprintf(os.Stderr, "unknown property %q\n", *prop)
		os.Exit(2)
	}
	if *replay != "" {
		raw, err := os.ReadFile(*replay)
		if err != nil {
			fmt.Fprintln(os.Stderr, err)
			os.Exit(2)
		}
		var v Violation
		if err := json.Unmarshal(raw, &v); err != nil {
			fmt.Fprintln(os.Stderr, err)
			os.Exit(2)
		}
		c := NewCtx(*prop, *tier, *seed, 0, 1)
		c.Race = raceBuild
		c.WorkDir = mkWork(*work, "replay")
		defer os.RemoveAll(c.WorkDir)
		fmt.Printf("replaying %s violation kind=%s: %s\n", *prop, v.Kind, v.What)
		if ch.Replay == nil {
			fmt.Println("(this check has no dedicated replayer; the witness above is self-describing)")
			fmt.Println(string(v.Replay))
			return
		}
		if err := ch.Replay(c, v.Replay); err != nil {
			fmt.Println("replay:", err)
			os.Exit(1)
		}
		p := c.Partial()
		for _, v := range p.Violations {
			fmt.Printf("reproduced: kind=%s attrs=%v %s\n", v.Kind, v.Attrs, v.What)
		}
		if len(p.Inconclusive) > 0 {
			fmt.Printf("inconclusive: %v notes: %v\n", p.Inconclusive, p.Notes)
		}
		if len(p.Violations) > 0 {
			os.Exit(1)
		}
		fmt.Println("not reproduced on this tree")
		return
	}

	if *shard >= 0 {
		// worker mode
		c := NewCtx(*prop, *tier, *seed, *shard, *nshards)
		c.Race = raceBuild
		c.WorkDir = mkWork(*work, fmt.Sprintf("shard%d", *shard))
		c.SharedDir = *work
		defer os.RemoveAll(c.WorkDir)
		if pf := os.Getenv("VERIF_CPUPROFILE"); pf != "" {
			f, _ := os.Create(fmt.Sprintf("%s.%d", pf, *shard))
			_ = pprof.StartCPUProfile(f)
			defer pprof.StopCPUProfile()
		}
		if *racePass {
			if ch.RaceRun != nil {
				ch.RaceRun(c)
			}
		} else {
			ch.Run(c)
		}
		b, err := json.Marshal(c.Partial())
		if err != nil {
			fmt.Fprintln(os.Stderr, "marshal partial:", err)
			os.Exit(2)
		}
		if err := os.WriteFile(*out, b, 0o644); err != nil {
			fmt.Fprintln(os.Stderr, err)
			os.Exit(2)
		}
		return
	}

	os.Exit(parent(ch, *tier, *seed, *nshards, *verifDir, *work, *raceBin))
}

func mkWork(root, name string) string {
	if root == "" {
		root = os.TempDir()
	}
	d, err := os.MkdirTemp(root, "verif-"+name+"-")
	if err != nil {
		panic(err)
	}
	return d
}

type shardResult struct {
	partial *Partial
	crashed bool
	log     string
	err     error
}

func runShards(bin string, ch *Check, tier string, seed uint64, n int, work string, racePass bool, timeout time.Duration) []shardResult {
	results := make([]shardResult, n)
	var wg sync.WaitGroup
	for i := 0; i < n; i++ {
		wg.Add(1)
		go func(i int) {
			defer wg.Done()
			outFile := filepath.Join(work, fmt.Sprintf("partial-%v-%d.json", racePass, i))
			args := []string{"-prop", ch.ID, "-tier", tier, "-seed", strconv.FormatUint(seed, 10), "-shard", strconv.Itoa(i), "-nshards", strconv.Itoa(n), "-out", outFile, "-work", work}
			if racePass {
				args = append(args, "-racepass")
			}
			cmd := exec.Command(bin, args...)
			var stderr bytes.Buffer
			cmd.Stderr = &stderr
			cmd.Stdout = &stderr
			procs := runtime.NumCPU()/n + 1
			cmd.Env = append(os.Environ(), fmt.Sprintf("GOMAXPROCS=%d", procs), "GOGC=300", "GORACE=halt_on_error=0 log_path="+filepath.Join(work, fmt.Sprintf("race-%d", i)))
			done := make(chan error, 1)
			if err := cmd.Start(); err != nil {
				results[i] = shardResult{err: err}
				return
			}
			go func() { done <- cmd.Wait() }()
			var err error
			select {
			case err = <-done:
			case <-time.After(timeout):
				_ = cmd.Process.Kill()
				<-done
				results[i] = shardResult{err: fmt.Errorf("watchdog: shard %d exceeded %s", i, timeout), log: tail(stderr.String(), 4000)}
				return
			}
			logs := stderr.String()
			if err != nil {
				crashed := strings.Contains(logs, "panic:") || strings.Contains(logs, "fatal error:")
				results[i] = shardResult{err: err, crashed: crashed, log: tail(logs, 12000)}
				return
			}
			raw, rerr := os.ReadFile(outFile)
			if rerr != nil {
				results[i] = shardResult{err: rerr, log: tail(logs, 4000)}
				return
			}
			p := &Partial{}
			if uerr := json.Unmarshal(raw, p); uerr != nil {
				results[i] = shardResult{err: uerr}
				return
			}
			results[i] = shardResult{partial: p, log: tail(logs, 2000)}
		}(i)
	}
	wg.Wait()
	return results
}

func tail(s string, n int) string {
	if len(s) <= n {
		return s
	}
	return s[len(s)-n:]
}

func parent(ch *Check, tier string, seed uint64, nshards int, verifDir, workRoot, raceBin string) int {
	start := time.Now()
	if nshards <= 0 {
		nshards = runtime.NumCPU()
		if ch.MaxShards > 0 && nshards > ch.MaxShards {
			nshards = ch.MaxShards
		}
	}
	work := mkWork(workRoot, ch.ID)
	defer os.RemoveAll(work)

	self, _ := os.Executable()
	timeout := 25 * time.Minute
	if tier == "thorough" {
		timeout = 6 * time.Hour
	}
	results := runShards(self, ch, tier, seed, nshards, work, false, timeout)
	raceReports := 0
	raceRan := false
	if ch.RaceRun != nil && raceBin != "" {
		if _, err := os.Stat(raceBin); err == nil {
			raceRan = true
			n := nshards
			if n > 4 {
				n = 4
			}
			rr := runShards(raceBin, ch, tier, seed, n, work, true, timeout)
			results = append(results, rr...)
			// count DATA RACE blocks from logs
			matches, _ := filepath.Glob(filepath.Join(work, "race-*"))
			for _, m := range matches {
				b, _ := os.ReadFile(m)
				raceReports += strings.Count(string(b), "WARNING: DATA RACE")
				if strings.Contains(string(b), "WARNING: DATA RACE") {
					_ = os.MkdirAll(filepath.Join(verifDir, "replays"), 0o755)
					_ = os.WriteFile(filepath.Join(verifDir, "replays", ch.ID+"-race-"+filepath.Base(m)+".log"), b, 0o644)
				}
			}
		}
	}

	merged := &Partial{Inconclusive: map[string]int64{}, NotJudged: map[string]int64{}, Counters: map[string]int64{}, Notes: map[string]any{}, Sets: map[string][]string{}}
	nontrivial := map[string]struct{}{}
	sets := map[string]map[string]struct{}{}
	machineryErrs := []string{}
	var crashViolations []Violation
	for i, r := range results {
		if r.partial == nil {
			if r.crashed {
				crashViolations = append(crashViolations, Violation{Kind: "crash", Attrs: map[string]string{"site": panicSite(r.log)}, What: "worker process died with a Go panic/fatal error while running gittuf code", Replay: mustJSON(map[string]any{"shard": i, "log": r.log})})
			} else {
				machineryErrs = append(machineryErrs, fmt.Sprintf("shard %d: %v\n%s", i, r.err, r.log))
			}
			continue
		}
		p := r.partial
		merged.Evaluations += p.Evaluations
		for _, k := range p.Nontrivial {
			nontrivial[k] = struct{}{}
		}
		if len(merged.Samples) < 4 {
			for _, s := range p.Samples {
				if len(merged.Samples) < 4 {
					merged.Samples = append(merged.Samples, s)
				}
			}
		}
		merged.Violations = append(merged.Violations, p.Violations...)
		for k, v := range p.Inconclusive {
			merged.Inconclusive[k] += v
		}
		for k, v := range p.NotJudged {
			merged.NotJudged[k] += v
		}
		for k, v := range p.Counters {
			merged.Counters[k] += v
		}
		for k, v := range p.Notes {
			merged.Notes[k] = v
		}
		for name, members := range p.Sets {
			m := sets[name]
			if m == nil {
				m = map[string]struct{}{}
				sets[name] = m
			}
			for _, s := range members {
				m[s] = struct{}{}
			}
		}
	}
	merged.Violations = append(merged.Violations, crashViolations...)
	if ch.Post != nil {
		pv, pn, perr := ch.Post(work, verifDir)
		if perr != nil {
			machineryErrs = append(machineryErrs, "post step: "+perr.Error())
		}
		merged.Violations = append(merged.Violations, pv...)
		for k, v := range pn {
			merged.Notes[k] = v
		}
	}
	if raceReports > 0 {
		merged.Violations = append(merged.Violations, Violation{Kind: "data-race", Attrs: map[string]string{}, What: fmt.Sprintf("%d data race report(s) from the Go race detector; logs in replays/%s-race-*.log", raceReports, ch.ID)})
	}

	// known findings
	kf := &KnownFindings{}
	if raw, err := os.ReadFile(filepath.Join(verifDir, "known_findings.json")); err == nil {
		if err := json.Unmarshal(raw, kf); err != nil {
			machineryErrs = append(machineryErrs, "known_findings.json: "+err.Error())
		}
	}
	knownHit := map[string]int{}
	var unknown []Violation
	seenSig := map[string]int{}
	for i := range merged.Violations {
		v := &merged.Violations[i]
		matched := false
		for j := range kf.Known {
			if kf.Known[j].matches(ch.ID, v) {
				knownHit[kf.Known[j].What]++
				matched = true
				break
			}
		}
		if !matched {
			seenSig[v.Signature()]++
			if seenSig[v.Signature()] <= 2 {
				unknown = append(unknown, *v)
			}
		}
	}
	khKeys := make([]string, 0, len(knownHit))
	for k := range knownHit {
		khKeys = append(khKeys, k)
	}
	sort.Strings(khKeys)
	for _, k := range khKeys {
		fmt.Printf("KNOWN-FINDING: property=%s %s\n", ch.ID, k)
	}
	_ = os.MkdirAll(filepath.Join(verifDir, "replays"), 0o755)
	for i, v := range unknown {
		name := fmt.Sprintf("%s-%s-%s-%d.json", ch.ID, sanitize(v.Kind), Hash(v.Signature(), v.What)[:8], i)
		path := filepath.Join(verifDir, "replays", name)
		b, _ := json.MarshalIndent(v, "", " ")
		_ = os.WriteFile(path, b, 0o644)
		fmt.Printf("VIOLATION property=%s replay=%s\n", ch.ID, path)
		fmt.Printf("  kind=%s attrs=%v: %s\n", v.Kind, v.Attrs, v.What)
	}

	var inconcl int64
	for _, v := range merged.Inconclusive {
		inconcl += v
	}
	distinct := len(nontrivial) + int(merged.Counters["distinct_by_enumeration"])
	if merged.Evaluations > 0 && float64(inconcl) > 0.02*float64(merged.Evaluations) {
		machineryErrs = append(machineryErrs, fmt.Sprintf("inconclusive share too high: %d of %d: %v", inconcl, merged.Evaluations, merged.Inconclusive))
	}
	if distinct < ch.MinNontrivial || distinct < 2 {
		machineryErrs = append(machineryErrs, fmt.Sprintf("observed too little: %d distinct non-trivial cases (< %d)", distinct, ch.MinNontrivial))
	}

	cov := map[string]any{
		"evaluations":         merged.Evaluations,
		"distinct_nontrivial": distinct,
		"rule":                ch.Rule,
		"samples":             merged.Samples,
		"inconclusive":        merged.Inconclusive,
		"not_judged":          merged.NotJudged,
		"counters":            merged.Counters,
		"worker_processes":    nshards,
		"known_findings_hit":  knownHit,
		"machinery_errors":    machineryErrs,
	}
	if len(merged.Samples) == 0 {
		cov["samples"] = []any{"(no samples recorded)"}
	}
	for name, m := range sets {
		cov["distinct_"+name] = len(m)
	}
	for k, v := range merged.Notes {
		cov[k] = v
	}
	if ch.RaceRun != nil {
		cov["race_pass_ran"] = raceRan
		cov["race_reports"] = raceReports
	}
	if ch.Exhaustive != nil {
		ex, what := ch.Exhaustive(tier)
		if ex && len(machineryErrs) == 0 {
			cov["exhaustive"] = true
			cov["exhaustive_subspace"] = what
		}
	}
	ev := evidence{
		PropertyID: ch.ID, Tier: tier, Seed: int64(seed), Level: ch.Level, Coverage: cov,
		Assumptions: ch.Assumptions, WallS: time.Since(start).Seconds(), Violations: len(unknown),
	}
	_ = os.MkdirAll(filepath.Join(verifDir, "evidence"), 0o755)
	b, _ := json.MarshalIndent(ev, "", " ")
	if err := os.WriteFile(filepath.Join(verifDir, "evidence", ch.ID+".json"), b, 0o644); err != nil {
		fmt.Fprintln(os.Stderr, "write evidence:", err)
		return 2
	}
	fmt.Printf("%s %s seed=%d: evaluations=%d distinct_nontrivial=%d violations=%d known=%d inconclusive=%d not_judged=%v wall=%.1fs\n",
		ch.ID, tier, seed, merged.Evaluations, distinct, len(unknown), len(knownHit), inconcl, sum(merged.NotJudged), time.Since(start).Seconds())
	if len(unknown) > 0 {
		return 1
	}
	if len(machineryErrs) > 0 {
		for _, e := range machineryErrs {
			fmt.Fprintln(os.Stderr, "MACHINERY-ERROR:", e)
		}
		return 2
	}
	return 0
}

func sum(m map[string]int64) int64 {
	var s int64
	for _, v := range m {
		s += v
	}
	return s
}

func mustJSON(v any) json.RawMessage {
	b, _ := json.Marshal(v)
	return b
}

func sanitize(s string) string {
	out := []rune{}
	for _, r := range s {
		if (r >= 'a' && r <= 'z') || (r >= 'A' && r <= 'Z') || (r >= '0' && r <= '9') || r == '-' {
			out = append(out, r)
		} else {
			out = append(out, '_')
		}
	}
	return string(out)
}
