// verifcheck is the single binary behind every registered check.
package main

import (
	_ "github.com/gittuf/gittuf/internal/verifharness/checks"
	"github.com/gittuf/gittuf/internal/verifharness/fw"
)

func main() { fw.Main(raceEnabled) }
