package scen

import (
	"bytes"
	"fmt"
	"os"
	"os/exec"
	"path/filepath"
	"sort"
	"strings"

	"github.com/gittuf/gittuf/internal/common/set"
	"github.com/gittuf/gittuf/internal/verifharness/keys"
	"github.com/gittuf/gittuf/internal/verifharness/memstore"
	"github.com/gittuf/gittuf/pkg/githash"
	"github.com/gittuf/gittuf/pkg/gitinterface"
	"github.com/gittuf/gittuf/pkg/gitstore"
)

func newSet(items []string) *set.Set[string] { return set.NewSetFromItems(items...) }

// ------------------------------------------------------------------ memstore

type Mem struct{ *memstore.Store }

func NewMem() *Mem { return &Mem{memstore.New()} }

func (m *Mem) SetSigner(a *keys.Actor) { m.Store.SigningKey = a }

func (m *Mem) CloneMem() *Mem { return &Mem{m.Store.Clone()} }

func (m *Mem) CommitFiles(files map[string]string, parents []githash.Hash, message string, signer *keys.Actor) (githash.Hash, error) {
	entries := make([]gitstore.TreeEntry, 0, len(files))
	names := make([]string, 0, len(files))
	for n := range files {
		names = append(names, n)
	}
	sort.Strings(names)
	for _, n := range names {
		id, err := m.WriteBlob([]byte(files[n]))
		if err != nil {
			return nil, err
		}
		entries = append(entries, gitstore.TreeEntry{Path: n, ID: id, Kind: gitstore.KindBlob})
	}
	tree, err := m.WriteTree(entries)
	if err != nil {
		return nil, err
	}
	return m.CreateCommit(tree, parents, message, signer), nil
}

func (m *Mem) SetRef(ref string, id githash.Hash) error { return m.SetReference(ref, id) }

func (m *Mem) Tag(target githash.Hash, name, message string, signer *keys.Actor) (githash.Hash, error) {
	return m.CreateTag(target, name, message, signer)
}

// ------------------------------------------------------------------ real git

// Git is a real repository driven through gitinterface.Repository.
type Git struct {
	*gitinterface.Repository
	Dir     string // GIT_DIR (bare) or worktree
	keysDir string
}

// NewGit creates a repository (bare unless worktree) under dir.
func NewGit(dir string, bare bool) (*Git, error) {
	args := []string{"init", "-q", "-b", "main"}
	if bare {
		args = append(args, "--bare")
	}
	args = append(args, dir)
	if out, err := exec.Command("git", args...).CombinedOutput(); err != nil {
		return nil, fmt.Errorf("git init: %v: %s", err, out)
	}
	repo, err := gitinterface.LoadRepository(dir)
	if err != nil {
		return nil, err
	}
	g := &Git{Repository: repo, Dir: dir, keysDir: filepath.Join(filepath.Dir(dir), filepath.Base(dir)+"-keys")}
	if err := os.MkdirAll(g.keysDir, 0o700); err != nil {
		return nil, err
	}
	for k, v := range map[string]string{"user.name": "Jane Doe", "user.email": "jane.doe@example.com", "gpg.format": "ssh", "commit.gpgsign": "false", "gc.auto": "0", "core.fsync": "none"} {
		if err := repo.SetGitConfig(k, v); err != nil {
			return nil, err
		}
	}
	return g, nil
}

// OpenGit opens an existing repository.
func OpenGit(dir string) (*Git, error) {
	repo, err := gitinterface.LoadRepository(dir)
	if err != nil {
		return nil, err
	}
	g := &Git{Repository: repo, Dir: dir, keysDir: filepath.Join(filepath.Dir(dir), filepath.Base(dir)+"-keys")}
	_ = os.MkdirAll(g.keysDir, 0o700)
	return g, nil
}

func (g *Git) keyPath(a *keys.Actor) string {
	p := filepath.Join(g.keysDir, a.Name)
	if _, err := os.Stat(p); err != nil {
		a.WriteFiles(g.keysDir)
	}
	return p
}

func (g *Git) SetSigner(a *keys.Actor) {
	if a == nil {
		return
	}
	if err := g.SetGitConfig("user.signingkey", g.keyPath(a)); err != nil {
		panic(err)
	}
}

// Run executes git in the repository and returns trimmed stdout.
func (g *Git) Run(stdin []byte, env []string, args ...string) (string, error) {
	full := append([]string{"--git-dir", g.GetGitDir()}, args...)
	cmd := exec.Command("git", full...)
	cmd.Env = append(os.Environ(), "LC_ALL=C", "GIT_NO_REPLACE_OBJECTS=1", "GIT_AUTHOR_DATE=1995-10-26T09:00:00Z", "GIT_COMMITTER_DATE=1995-10-26T09:00:00Z")
	cmd.Env = append(cmd.Env, env...)
	if stdin != nil {
		cmd.Stdin = bytes.NewReader(stdin)
	}
	var out, errb bytes.Buffer
	cmd.Stdout = &out
	cmd.Stderr = &errb
	if err := cmd.Run(); err != nil {
		return "", fmt.Errorf("git %s: %v: %s", strings.Join(args, " "), err, errb.String())
	}
	return strings.TrimSpace(out.String()), nil
}

// RunRaw is Run without trimming.
func (g *Git) RunRaw(stdin []byte, args ...string) ([]byte, error) {
	full := append([]string{"--git-dir", g.GetGitDir()}, args...)
	cmd := exec.Command("git", full...)
	cmd.Env = append(os.Environ(), "LC_ALL=C", "GIT_NO_REPLACE_OBJECTS=1")
	if stdin != nil {
		cmd.Stdin = bytes.NewReader(stdin)
	}
	var out, errb bytes.Buffer
	cmd.Stdout = &out
	cmd.Stderr = &errb
	if err := cmd.Run(); err != nil {
		return nil, fmt.Errorf("git %s: %v: %s", strings.Join(args, " "), err, errb.String())
	}
	return out.Bytes(), nil
}

// Refs lists all references (name -> hex ID).
func (g *Git) Refs() map[string]string {
	out := map[string]string{}
	txt, err := g.Run(nil, nil, "for-each-ref", "--format=%(refname) %(objectname)")
	if err != nil {
		return out
	}
	for _, l := range strings.Split(txt, "\n") {
		if f := strings.Fields(l); len(f) == 2 {
			out[f[0]] = f[1]
		}
	}
	return out
}

// RefLister is implemented by both back ends.
type RefLister interface{ Refs() map[string]string }

func (g *Git) CommitTree(tree githash.Hash, parents []githash.Hash, message string, signer *keys.Actor) (githash.Hash, error) {
	args := []string{}
	if signer != nil {
		args = append(args, "-c", "user.signingkey="+g.keyPath(signer), "-c", "gpg.format=ssh")
	}
	args = append(args, "commit-tree", "-m", message)
	for _, p := range parents {
		args = append(args, "-p", p.String())
	}
	if signer != nil {
		args = append(args, "-S")
	}
	args = append(args, tree.String())
	out, err := g.Run(nil, nil, args...)
	if err != nil {
		return nil, err
	}
	return githash.NewHash(out)
}

func (g *Git) CommitFiles(files map[string]string, parents []githash.Hash, message string, signer *keys.Actor) (githash.Hash, error) {
	entries := make([]gitstore.TreeEntry, 0, len(files))
	names := make([]string, 0, len(files))
	for n := range files {
		names = append(names, n)
	}
	sort.Strings(names)
	for _, n := range names {
		id, err := g.WriteBlob([]byte(files[n]))
		if err != nil {
			return nil, err
		}
		entries = append(entries, gitstore.TreeEntry{Path: n, ID: id, Kind: gitstore.KindBlob})
	}
	tree, err := g.WriteTree(entries)
	if err != nil {
		return nil, err
	}
	return g.CommitTree(tree, parents, message, signer)
}

func (g *Git) SetRef(ref string, id githash.Hash) error { return g.SetReference(ref, id) }

func (g *Git) Tag(target githash.Hash, name, message string, signer *keys.Actor) (githash.Hash, error) {
	var b bytes.Buffer
	typ, err := g.Run(nil, nil, "cat-file", "-t", target.String())
	if err != nil {
		return nil, err
	}
	if !strings.HasSuffix(message, "\n") {
		message += "\n"
	}
	fmt.Fprintf(&b, "object %s\ntype %s\ntag %s\ntagger Jane Doe <jane.doe@example.com> 814698000 +0000\n\n%s", target.String(), typ, name, message)
	if signer != nil {
		b.WriteString(signer.SignObject(b.Bytes()))
	}
	out, err := g.Run(b.Bytes(), nil, "hash-object", "-t", "tag", "-w", "--stdin")
	if err != nil {
		return nil, err
	}
	return githash.NewHash(out)
}

var (
	_ Backend = (*Mem)(nil)
	_ Backend = (*Git)(nil)
)
