package scen

import (
	"fmt"

	"github.com/gittuf/gittuf/internal/attestations"
	"github.com/gittuf/gittuf/internal/signerverifier/dsse"
	sslibdsse "github.com/gittuf/gittuf/internal/third_party/go-securesystemslib/dsse"
	"github.com/gittuf/gittuf/internal/verifharness/keys"
	"github.com/gittuf/gittuf/pkg/githash"
	"github.com/gittuf/gittuf/pkg/gitinterface"
	"github.com/gittuf/gittuf/pkg/rsl"
)

// Event is one step of an abstract history. Indices into the history's event
// list are how events refer to each other.
type Event struct {
	Kind string `json:"kind"` // policy | rawpolicy | push | approve | annotate | staging | propagation | tag

	// policy / rawpolicy / staging
	Policy *Policy `json:"policy,omitempty"`

	// push / tag / propagation / approve
	Ref     string `json:"ref,omitempty"`
	Signer  string `json:"signer,omitempty"`  // actor signing the RSL entry ("" = unsigned)
	Content string `json:"content,omitempty"` // the tree is a function of this string alone
	Force   bool   `json:"force,omitempty"`   // push: new root commit (not a descendant of the previous tip)

	// approve: names the change (Ref, from = commit of push event FromPush or
	// zero when -1, to = tree(Content)); signed by Approvers
	FromPush  int      `json:"from_push,omitempty"`
	Approvers []string `json:"approvers,omitempty"`

	// annotate
	Targets []int `json:"targets,omitempty"`
	Skip    bool  `json:"skip,omitempty"`

	// tag: TagSigner signs the tag object; OnPush = push event whose commit is tagged;
	// Reuse > 0: re-record the tag object created by tag event Reuse-1 instead of a new one.
	// approve with TagOn > 0: the approval is for tagging the commit of push event TagOn-1
	// (to = that commit, from = tag object of tag event FromPush or zero)
	TagSigner string `json:"tag_signer,omitempty"`
	OnPush    int    `json:"on_push,omitempty"`
	Reuse     int    `json:"reuse,omitempty"`
	TagOn     int    `json:"tag_on,omitempty"`
}

type History struct {
	Events []Event `json:"events"`
}

// Built records what the builder produced for each event.
type Built struct {
	EntryID  []githash.Hash // main RSL entry of the event (nil if none)
	CommitID []githash.Hash // commit of a push / tag object of a tag event
	Errors   []string       // builder errors per event ("" = ok)
}

func contentFiles(content string) map[string]string {
	return map[string]string{"f": content}
}

// Builder materialises a history step by step (so that callers can act between
// events, e.g. populate a cache at log length k).
type Builder struct {
	H   *History
	B   Backend
	Out *Built
	tip map[string]githash.Hash // ref -> commit of latest push
	pos int
}

func NewBuilder(h *History, b Backend) *Builder {
	n := len(h.Events)
	return &Builder{H: h, B: b, tip: map[string]githash.Hash{},
		Out: &Built{EntryID: make([]githash.Hash, n), CommitID: make([]githash.Hash, n), Errors: make([]string, n)}}
}

// Next reports whether events remain.
func (bl *Builder) Next() bool { return bl.pos < len(bl.H.Events) }

// Pos is the index of the next event to be built.
func (bl *Builder) Pos() int { return bl.pos }

// Build materialises the history on the backend with gittuf's own writers.
// A builder error on an event that the scenario expects to succeed is the
// caller's to judge; Build records it and continues.
func (h *History) Build(b Backend) (*Built, error) {
	bl := NewBuilder(h, b)
	for bl.Next() {
		bl.Step()
	}
	return bl.Out, nil
}

// Step builds the next event.
func (bl *Builder) Step() {
	h, b, out, tip := bl.H, bl.B, bl.Out, bl.tip
	i := bl.pos
	bl.pos++
	{
		ev := &h.Events[i]
		var err error
		switch ev.Kind {
		case "policy":
			err = StageAndApply(b, *ev.Policy, ev.Signer)
			if err == nil {
				out.EntryID[i], err = b.GetReference(rsl.Ref)
			}
		case "rawpolicy":
			_, err = RawPolicyEntry(b, *ev.Policy, ev.Signer)
			if err == nil {
				out.EntryID[i], err = b.GetReference(rsl.Ref)
			}
		case "staging":
			state, berr := ev.Policy.BuildState()
			if berr != nil {
				err = berr
				break
			}
			sign := setSigner(b, ev.Signer)
			err = state.Commit(b, "Stage only\n", true, sign)
			if err == nil {
				out.EntryID[i], err = b.GetReference(rsl.Ref)
			}
		case "push":
			var parents []githash.Hash
			if p, ok := tip[ev.Ref]; ok && !ev.Force {
				parents = []githash.Hash{p}
			}
			var cid githash.Hash
			cid, err = b.CommitFiles(contentFiles(ev.Content), parents, fmt.Sprintf("push #%d", i), nil)
			if err != nil {
				break
			}
			out.CommitID[i] = cid
			tip[ev.Ref] = cid
			if err = b.SetRef(ev.Ref, cid); err != nil {
				break
			}
			out.EntryID[i], err = RecordEntry(b, ev.Ref, cid, ev.Signer)
		case "propagation":
			var parents []githash.Hash
			if p, ok := tip[ev.Ref]; ok {
				parents = []githash.Hash{p}
			}
			var cid githash.Hash
			cid, err = b.CommitFiles(contentFiles(ev.Content), parents, fmt.Sprintf("propagate #%d", i), nil)
			if err != nil {
				break
			}
			out.CommitID[i] = cid
			tip[ev.Ref] = cid
			if err = b.SetRef(ev.Ref, cid); err != nil {
				break
			}
			sign := setSigner(b, ev.Signer)
			err = rsl.NewPropagationEntry(ev.Ref, cid, "https://upstream.example/repo", githash.Hash(make([]byte, 20))).Commit(b, sign)
			if err == nil {
				out.EntryID[i], err = b.GetReference(rsl.Ref)
			}
		case "approve":
			from := b.ZeroHash()
			if ev.FromPush >= 0 {
				from = out.CommitID[ev.FromPush]
			}
			if ev.TagOn > 0 {
				err = h.approveTag(b, ev, from, out.CommitID[ev.TagOn-1])
			} else {
				err = h.approve(b, ev, from)
			}
			if err == nil {
				out.EntryID[i], err = b.GetReference(rsl.Ref)
			}
		case "annotate":
			ids := []githash.Hash{}
			for _, t := range ev.Targets {
				if out.EntryID[t] != nil {
					ids = append(ids, out.EntryID[t])
				}
			}
			if len(ids) == 0 {
				err = fmt.Errorf("annotation without resolvable targets")
				break
			}
			out.EntryID[i], err = Annotate(b, ids, ev.Skip, "note", ev.Signer)
		case "tag":
			target := out.CommitID[ev.OnPush]
			var signer *keys.Actor
			if ev.TagSigner != "" {
				signer = keys.ByName(ev.TagSigner)
			}
			var tid githash.Hash
			if ev.Reuse > 0 {
				tid = out.CommitID[ev.Reuse-1]
			} else {
				tid, err = b.Tag(target, ev.Ref[len(gitinterface.TagRefPrefix):], fmt.Sprintf("tag #%d", i), signer)
			}
			if err != nil {
				break
			}
			out.CommitID[i] = tid
			if err = b.SetRef(ev.Ref, tid); err != nil {
				break
			}
			out.EntryID[i], err = RecordEntry(b, ev.Ref, tid, ev.Signer)
		default:
			err = fmt.Errorf("unknown event kind %q", ev.Kind)
		}
		if err != nil {
			out.Errors[i] = err.Error()
		}
	}
}

func (h *History) approveTag(b Backend, ev *Event, from, commit githash.Hash) error {
	atts, err := attestations.LoadCurrentAttestations(b)
	if err != nil {
		return err
	}
	env, err := atts.GetReferenceAuthorizationFor(b, ev.Ref, from.String(), commit.String())
	if err != nil {
		stmt, serr := attestations.NewReferenceAuthorizationForTag(ev.Ref, from.String(), commit.String())
		if serr != nil {
			return serr
		}
		env, err = dsse.CreateEnvelope(stmt)
		if err != nil {
			return err
		}
	}
	for _, a := range ev.Approvers {
		env, err = dsse.SignEnvelope(Ctx, env, keys.DSSE{A: keys.ByName(a)})
		if err != nil {
			return err
		}
	}
	if err := atts.SetReferenceAuthorization(b, env, ev.Ref, from.String(), commit.String()); err != nil {
		return err
	}
	sign := setSigner(b, ev.Signer)
	return atts.Commit(b, "Add tag authorization\n", true, sign)
}

func (h *History) approve(b Backend, ev *Event, from githash.Hash) error {
	// the "to" side is the tree of Content: write it to learn its ID
	cid, err := b.CommitFiles(contentFiles(ev.Content), nil, "tree probe", nil)
	if err != nil {
		return err
	}
	treeID, err := b.GetCommitTreeID(cid)
	if err != nil {
		return err
	}
	atts, err := attestations.LoadCurrentAttestations(b)
	if err != nil {
		return err
	}
	var env *sslibdsse.Envelope
	env, err = atts.GetReferenceAuthorizationFor(b, ev.Ref, from.String(), treeID.String())
	if err != nil {
		stmt, serr := attestations.NewReferenceAuthorizationForCommit(ev.Ref, from.String(), treeID.String())
		if serr != nil {
			return serr
		}
		env, err = dsse.CreateEnvelope(stmt)
		if err != nil {
			return err
		}
	}
	for _, a := range ev.Approvers {
		env, err = dsse.SignEnvelope(Ctx, env, keys.DSSE{A: keys.ByName(a)})
		if err != nil {
			return err
		}
	}
	if err := atts.SetReferenceAuthorization(b, env, ev.Ref, from.String(), treeID.String()); err != nil {
		return err
	}
	sign := setSigner(b, ev.Signer)
	return atts.Commit(b, "Add authorization\n", true, sign)
}
