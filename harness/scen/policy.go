// Package scen holds abstract scenarios (policies, histories) and the builders
// that materialise them on a gitstore.Storer using gittuf's own writers. The
// oracles in the checks only ever look at the abstract side.
package scen

import (
	"context"
	"fmt"

	"github.com/gittuf/gittuf/internal/policy"
	"github.com/gittuf/gittuf/internal/signerverifier/dsse"
	sslibdsse "github.com/gittuf/gittuf/internal/third_party/go-securesystemslib/dsse"
	"github.com/gittuf/gittuf/internal/tuf"
	tufv01 "github.com/gittuf/gittuf/internal/tuf/v01"
	tufv02 "github.com/gittuf/gittuf/internal/tuf/v02"
	"github.com/gittuf/gittuf/internal/verifharness/keys"
	"github.com/gittuf/gittuf/pkg/githash"
	"github.com/gittuf/gittuf/pkg/gitstore"
	"github.com/gittuf/gittuf/pkg/rsl"
)

var Ctx = context.Background()

// Principal: ID plus the actor names whose keys it owns. A principal with one
// key and Person=false is a tuf Key principal whose ID is the key ID; the
// abstract ID is still the scenario's own name for it.
type Principal struct {
	ID         string            `json:"id"`
	Keys       []string          `json:"keys"`
	Person     bool              `json:"person,omitempty"`
	Identities map[string]string `json:"identities,omitempty"`
}

// TufID is the identifier gittuf will know the principal by.
func (p Principal) TufID() string {
	if p.Person {
		return p.ID
	}
	return keys.ByName(p.Keys[0]).KeyID
}

func (p Principal) Tuf() tuf.Principal {
	if p.Person {
		as := []*keys.Actor{}
		for _, k := range p.Keys {
			as = append(as, keys.ByName(k))
		}
		return keys.Person(p.ID, p.Identities, as...)
	}
	return keys.ByName(p.Keys[0]).KeyPrincipal()
}

type Rule struct {
	Name        string   `json:"name"`
	Patterns    []string `json:"patterns"`
	Principals  []string `json:"principals"` // abstract principal IDs
	Threshold   int      `json:"threshold"`
	Terminating bool     `json:"terminating,omitempty"`
}

// RuleFile is one rule file ("targets" is the primary one).
type RuleFile struct {
	Name       string      `json:"name"`
	Principals []Principal `json:"principals"` // principals defined in this file
	Rules      []Rule      `json:"rules"`
	Version    uint64      `json:"version,omitempty"` // 0 = 1
	Signers    []string    `json:"signers"`           // actor names signing the envelope
}

type GlobalRule struct {
	Kind      string   `json:"kind"` // threshold | block-force-push
	Name      string   `json:"name"`
	Patterns  []string `json:"patterns"`
	Threshold int      `json:"threshold,omitempty"`
	// Controller: the rule is declared by a controller's root of trust whose
	// metadata is carried in the policy tree (gittuf-controller/ctl), not by
	// the repository's own root.
	Controller bool `json:"controller,omitempty"`
}

type App struct {
	Name    string `json:"name"`
	Key     string `json:"key"` // actor name
	Trusted bool   `json:"trusted"`
}

// Hook is a hook declared in the root metadata.
type Hook struct {
	Name       string   `json:"name"`
	Stages     []string `json:"stages"` // pre-commit | pre-push
	Principals []string `json:"principals"` // abstract principal IDs
	BlobID     string   `json:"blob_id"`
	Timeout    int      `json:"timeout"`
}

type Policy struct {
	RootPrincipals    []Principal  `json:"root_principals"`
	RootThreshold     int          `json:"root_threshold"`
	RootVersion       uint64       `json:"root_version,omitempty"`
	RootSigners       []string     `json:"root_signers"`
	TargetsPrincipals []Principal  `json:"targets_principals"`
	TargetsThreshold  int          `json:"targets_threshold"`
	Files             []RuleFile   `json:"files"`
	Globals           []GlobalRule `json:"globals,omitempty"`
	Apps              []App        `json:"apps,omitempty"`
	Hooks             []Hook       `json:"hooks,omitempty"`
}

// Clone deep-copies a policy through its own structure.
func (p Policy) Clone() Policy {
	q := p
	q.RootPrincipals = append([]Principal{}, p.RootPrincipals...)
	q.RootSigners = append([]string{}, p.RootSigners...)
	q.TargetsPrincipals = append([]Principal{}, p.TargetsPrincipals...)
	q.Globals = append([]GlobalRule{}, p.Globals...)
	q.Apps = append([]App{}, p.Apps...)
	q.Hooks = make([]Hook, len(p.Hooks))
	for i, h := range p.Hooks {
		hh := h
		hh.Stages = append([]string{}, h.Stages...)
		hh.Principals = append([]string{}, h.Principals...)
		q.Hooks[i] = hh
	}
	q.Files = make([]RuleFile, len(p.Files))
	for i, f := range p.Files {
		g := f
		g.Principals = append([]Principal{}, f.Principals...)
		g.Signers = append([]string{}, f.Signers...)
		g.Rules = make([]Rule, len(f.Rules))
		for j, r := range f.Rules {
			rr := r
			rr.Patterns = append([]string{}, r.Patterns...)
			rr.Principals = append([]string{}, r.Principals...)
			g.Rules[j] = rr
		}
		q.Files[i] = g
	}
	return q
}

func signEnv(env *sslibdsse.Envelope, signers []string) (*sslibdsse.Envelope, error) {
	var err error
	for _, s := range signers {
		env, err = dsse.SignEnvelope(Ctx, env, keys.DSSE{A: keys.ByName(s)})
		if err != nil {
			return nil, err
		}
	}
	return env, nil
}

// BuildRoot builds the signed root envelope.
func (p Policy) BuildRoot() (*sslibdsse.Envelope, error) {
	root := tufv02.NewRootMetadata()
	for _, pr := range p.RootPrincipals {
		if err := root.AddRootPrincipal(pr.Tuf()); err != nil {
			return nil, err
		}
	}
	if p.RootThreshold > 1 {
		if err := root.UpdateRootThreshold(p.RootThreshold); err != nil {
			return nil, err
		}
	}
	for _, pr := range p.TargetsPrincipals {
		if err := root.AddPrimaryRuleFilePrincipal(pr.Tuf()); err != nil {
			return nil, err
		}
	}
	if p.TargetsThreshold > 1 {
		if err := root.UpdatePrimaryRuleFileThreshold(p.TargetsThreshold); err != nil {
			return nil, err
		}
	}
	for _, g := range p.Globals {
		if g.Controller {
			continue
		}
		switch g.Kind {
		case "threshold":
			if err := root.AddGlobalRule(tufv01.NewGlobalRuleThreshold(g.Name, g.Patterns, g.Threshold)); err != nil {
				return nil, err
			}
		case "block-force-push":
			gr, err := tufv01.NewGlobalRuleBlockForcePushes(g.Name, g.Patterns)
			if err != nil {
				return nil, err
			}
			if err := root.AddGlobalRule(gr); err != nil {
				return nil, err
			}
		default:
			return nil, fmt.Errorf("unknown global rule kind %q", g.Kind)
		}
	}
	for _, a := range p.Apps {
		if err := root.AddGitHubAppPrincipal(a.Name, keys.ByName(a.Key).KeyPrincipal()); err != nil {
			return nil, err
		}
		if a.Trusted {
			root.EnableGitHubAppApprovals(a.Name)
		}
	}
	if len(p.Hooks) > 0 {
		idx := p.PrincipalIndex()
		for _, h := range p.Hooks {
			stages := []tuf.HookStage{}
			for _, st := range h.Stages {
				if st == "pre-commit" {
					stages = append(stages, tuf.HookStagePreCommit)
				} else {
					stages = append(stages, tuf.HookStagePrePush)
				}
			}
			ids := []string{}
			for _, pid := range h.Principals {
				ids = append(ids, idx[pid].TufID())
			}
			if _, err := root.AddHook(stages, h.Name, ids, map[string]string{"gitBlob": h.BlobID, "sha256": "00"}, tuf.HookEnvironmentLua, h.Timeout); err != nil {
				return nil, err
			}
		}
	}
	if p.RootVersion > 0 {
		root.Version = p.RootVersion
	}
	env, err := dsse.CreateEnvelope(root)
	if err != nil {
		return nil, err
	}
	return signEnv(env, p.RootSigners)
}

// BuildFile builds one signed rule-file envelope. Rules are written directly
// (not through AddRule) so that hostile shapes can be expressed; well-formed
// shapes produce exactly what AddRule would.
func BuildFile(f RuleFile, principalIndex map[string]Principal) (*sslibdsse.Envelope, error) {
	t := tufv02.NewTargetsMetadata()
	for _, pr := range f.Principals {
		if err := t.AddPrincipal(pr.Tuf()); err != nil {
			return nil, err
		}
	}
	roles := []*tufv02.Delegation{}
	for _, r := range f.Rules {
		ids := []string{}
		for _, pid := range r.Principals {
			pr, ok := principalIndex[pid]
			if !ok {
				return nil, fmt.Errorf("rule %s names unknown principal %s", r.Name, pid)
			}
			ids = append(ids, pr.TufID())
		}
		d := &tufv02.Delegation{Name: r.Name, Paths: r.Patterns, Terminating: r.Terminating}
		d.Role = tufv02.Role{PrincipalIDs: newSet(ids), Threshold: r.Threshold}
		roles = append(roles, d)
	}
	roles = append(roles, tufv02.AllowRule())
	t.Delegations.Roles = roles
	if f.Version > 0 {
		t.Version = f.Version
	}
	env, err := dsse.CreateEnvelope(t)
	if err != nil {
		return nil, err
	}
	return signEnv(env, f.Signers)
}

// PrincipalIndex maps abstract principal IDs to their definitions across root
// and all rule files.
func (p Policy) PrincipalIndex() map[string]Principal {
	idx := map[string]Principal{}
	for _, pr := range p.RootPrincipals {
		idx[pr.ID] = pr
	}
	for _, pr := range p.TargetsPrincipals {
		idx[pr.ID] = pr
	}
	for _, f := range p.Files {
		for _, pr := range f.Principals {
			idx[pr.ID] = pr
		}
	}
	return idx
}

// BuildState builds the full state metadata.
func (p Policy) BuildState() (*policy.State, error) {
	rootEnv, err := p.BuildRoot()
	if err != nil {
		return nil, fmt.Errorf("root: %w", err)
	}
	md := &policy.StateMetadata{RootEnvelope: rootEnv}
	idx := p.PrincipalIndex()
	for _, f := range p.Files {
		env, err := BuildFile(f, idx)
		if err != nil {
			return nil, fmt.Errorf("file %s: %w", f.Name, err)
		}
		if f.Name == policy.TargetsRoleName {
			md.TargetsEnvelope = env
			continue
		}
		if md.DelegationEnvelopes == nil {
			md.DelegationEnvelopes = map[string]*sslibdsse.Envelope{}
		}
		md.DelegationEnvelopes[f.Name] = env
	}
	st := &policy.State{Metadata: md}
	ctl := []GlobalRule{}
	for _, g := range p.Globals {
		if g.Controller {
			g.Controller = false
			ctl = append(ctl, g)
		}
	}
	if len(ctl) > 0 {
		// the controller's root as propagation leaves it in the policy tree;
		// the repository's root does not list the controller, so State.Verify
		// has nothing to clone (the network side is out of the harness' reach)
		cp := Policy{RootPrincipals: []Principal{{ID: "CR", Keys: []string{"croot"}}}, RootThreshold: 1, RootSigners: []string{"croot"},
			TargetsPrincipals: []Principal{{ID: "CR", Keys: []string{"croot"}}}, TargetsThreshold: 1, Globals: ctl}
		env, err := cp.BuildRoot()
		if err != nil {
			return nil, fmt.Errorf("controller root: %w", err)
		}
		st.ControllerMetadata = map[string]*policy.StateMetadata{ControllerName: {RootEnvelope: env}}
	}
	return st, nil
}

// ControllerName is the name under which controller metadata is carried.
const ControllerName = "ctl"

// SignerSetter is implemented by stores whose sign=true key can be switched
// (memstore: field; real git: config).
type SignerSetter interface {
	SetSigner(a *keys.Actor)
}

// Backend is what builders need beyond gitstore.Storer.
type Backend interface {
	gitstore.Storer
	SignerSetter
	// CommitTree creates a commit (no ref update) with the given single-level
	// file contents on top of the parents, signed by signer (nil = unsigned).
	CommitFiles(files map[string]string, parents []githash.Hash, message string, signer *keys.Actor) (githash.Hash, error)
	// SetRef force-sets a reference.
	SetRef(ref string, id githash.Hash) error
	// Tag creates an annotated tag object (optionally signed) and returns its ID.
	Tag(target githash.Hash, name, message string, signer *keys.Actor) (githash.Hash, error)
}

// StageAndApply writes the policy through gittuf's own writers: State.Commit
// (staging, with entry) then policy.Apply. entrySigner signs both RSL entries
// ("" = unsigned).
func StageAndApply(b Backend, p Policy, entrySigner string) error {
	st, err := p.BuildState()
	if err != nil {
		return err
	}
	sign := setSigner(b, entrySigner)
	if err := st.Commit(b, "Policy update\n", true, sign); err != nil {
		return fmt.Errorf("stage: %w", err)
	}
	if err := policy.Apply(Ctx, b, sign); err != nil {
		return fmt.Errorf("apply: %w", err)
	}
	return nil
}

func setSigner(b Backend, name string) bool {
	if name == "" {
		b.SetSigner(nil)
		return false
	}
	b.SetSigner(keys.ByName(name))
	return true
}

// RawPolicyEntry publishes a policy state the way an attacker with push access
// would: commit on refs/gittuf/policy (parent = current tip) and an RSL entry
// for it, bypassing staging, Apply and every writer-side check.
func RawPolicyEntry(b Backend, p Policy, entrySigner string) (githash.Hash, error) {
	st, err := p.BuildState()
	if err != nil {
		return nil, err
	}
	return RawPolicyEntryFromState(b, st, entrySigner)
}

func RawPolicyEntryFromState(b Backend, st *policy.State, entrySigner string) (githash.Hash, error) {
	mdTree, err := st.Metadata.WriteTree(b)
	if err != nil {
		return nil, err
	}
	root, err := b.WriteTree([]gitstore.TreeEntry{{Path: "metadata", ID: mdTree, Kind: gitstore.KindSubtree}})
	if err != nil {
		return nil, err
	}
	b.SetSigner(nil)
	cid, err := b.Commit(root, policy.PolicyRef, "Policy update\n", false)
	if err != nil {
		return nil, err
	}
	sign := setSigner(b, entrySigner)
	if err := rsl.NewReferenceEntry(policy.PolicyRef, cid).Commit(b, sign); err != nil {
		return nil, err
	}
	return cid, nil
}

// RecordEntry records a reference entry for ref -> target signed by signer
// ("" = unsigned) and returns the entry's ID.
func RecordEntry(b Backend, ref string, target githash.Hash, signer string) (githash.Hash, error) {
	sign := setSigner(b, signer)
	if err := rsl.NewReferenceEntry(ref, target).Commit(b, sign); err != nil {
		return nil, err
	}
	return b.GetReference(rsl.Ref)
}

// Annotate records an annotation.
func Annotate(b Backend, ids []githash.Hash, skip bool, msg, signer string) (githash.Hash, error) {
	sign := setSigner(b, signer)
	if err := rsl.NewAnnotationEntry(ids, skip, msg).Commit(b, sign); err != nil {
		return nil, err
	}
	return b.GetReference(rsl.Ref)
}
