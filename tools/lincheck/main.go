// lincheck checks recorded append histories of the RSL against the sequential
// numbered-log model with porcupine: state = last number; a successful append
// that was assigned number n is legal iff n == state+1; a failed append leaves
// the state unchanged.
//
// input: JSONL files, one history per line:
//   {"id":"...","init":3,"ops":[{"client":0,"call":1,"ret":5,"ok":true,"number":4}, ...]}
// output: one JSON object on stdout:
//   {"histories":N,"ok":A,"illegal":B,"unknown":C,"illegal_ids":[...]}
package main

import (
	"bufio"
	"encoding/json"
	"fmt"
	"os"
	"time"

	"github.com/anishathalye/porcupine"
)

type op struct {
	Client int    `json:"client"`
	Call   int64  `json:"call"`
	Ret    int64  `json:"ret"`
	OK     bool   `json:"ok"`
	Number uint64 `json:"number"`
}

type history struct {
	ID   string `json:"id"`
	Init uint64 `json:"init"`
	Ops  []op   `json:"ops"`
}

type input struct {
	OK     bool
	Number uint64
}

func main() {
	res := struct {
		Histories  int      `json:"histories"`
		OK         int      `json:"ok"`
		Illegal    int      `json:"illegal"`
		Unknown    int      `json:"unknown"`
		Operations int      `json:"operations"`
		IllegalIDs []string `json:"illegal_ids"`
	}{}
	for _, path := range os.Args[1:] {
		f, err := os.Open(path)
		if err != nil {
			fmt.Fprintln(os.Stderr, err)
			os.Exit(2)
		}
		sc := bufio.NewScanner(f)
		sc.Buffer(make([]byte, 1<<20), 1<<26)
		for sc.Scan() {
			var h history
			if err := json.Unmarshal(sc.Bytes(), &h); err != nil {
				fmt.Fprintln(os.Stderr, "bad line:", err)
				os.Exit(2)
			}
			init := h.Init
			model := porcupine.Model{
				Init: func() interface{} { return init },
				Step: func(state, in, out interface{}) (bool, interface{}) {
					s := state.(uint64)
					i := in.(input)
					if !i.OK {
						return true, s
					}
					if i.Number == s+1 {
						return true, i.Number
					}
					return false, s
				},
				Equal: func(a, b interface{}) bool { return a.(uint64) == b.(uint64) },
			}
			ops := make([]porcupine.Operation, 0, len(h.Ops))
			for _, o := range h.Ops {
				ops = append(ops, porcupine.Operation{ClientId: o.Client, Input: input{o.OK, o.Number}, Call: o.Call, Output: nil, Return: o.Ret})
			}
			res.Histories++
			res.Operations += len(ops)
			switch porcupine.CheckOperationsTimeout(model, ops, 60*time.Second) {
			case porcupine.Ok:
				res.OK++
			case porcupine.Illegal:
				res.Illegal++
				if len(res.IllegalIDs) < 50 {
					res.IllegalIDs = append(res.IllegalIDs, h.ID)
				}
			default:
				res.Unknown++
			}
		}
		f.Close()
	}
	b, _ := json.Marshal(res)
	fmt.Println(string(b))
}
