module lincheck

go 1.23

require github.com/anishathalye/porcupine v1.3.0
