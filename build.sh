#!/bin/bash
# Rebuild the harness against /repo's current working tree (hooks on: -tags verif).
# usage: build.sh [race]
set -euo pipefail
VERIF=${VERIF_DIR:-$(cd "$(dirname "$0")" && pwd)}
REPO=${VERIF_REPO:-/repo}
export GOFLAGS=-mod=mod GOPROXY=off
unset GOSUMDB GOTOOLCHAIN || true
mkdir -p "$VERIF/build"
python3 - "$VERIF" "$REPO" <<'PY'
import json, os, sys
verif, repo = sys.argv[1], sys.argv[2]
rep = {}
root = os.path.join(verif, "harness")
for d, _, files in os.walk(root):
    for f in files:
        if f.endswith(".go"):
            src = os.path.join(d, f)
            rel = os.path.relpath(src, root)
            rep[os.path.join(repo, "internal", "verifharness", rel)] = src
json.dump({"Replace": rep}, open(os.path.join(verif, "build", "overlay.json"), "w"), indent=1)
PY
cd "$REPO"
if [ "${1:-}" = race ]; then
  go build -race -tags verif -overlay "$VERIF/build/overlay.json" -o "$VERIF/build/verifcheck-race" ./internal/verifharness/cmd/verifcheck
else
  go build -tags verif -overlay "$VERIF/build/overlay.json" -o "$VERIF/build/verifcheck" ./internal/verifharness/cmd/verifcheck
fi
