#!/usr/bin/env python3
"""Regenerates MANIFEST.json from the table below (keeps the interface file valid and in one place)."""
import json
props=[json.loads(l) for l in open('/verif/properties.jsonl')]
C={
'C01':('exploration','reference model (authorization per preceding policy + recovery fold) over exhaustive short and sampled long histories; both false accept and false reject judged; violating histories and a sample rebuilt on real git','runtime monitoring: reference-model oracle over generated histories (in-memory Storer + real-git fidelity sample)'),
'C02':('exploration','labelled single-defect policy chains x every verification mode; a mode must fail iff it depends on a defective state (chain oracle), exhaustive for chains <= 3','runtime monitoring: chain-of-trust model + mode agreement over generated policy chains'),
'C03':('exploration','independent log walker run after every operation of random recording sequences (with injected single faults), on the in-memory Storer and through the public API on real git','runtime monitoring: invariant checked at quiescent points by an independent walker'),
'C04':('exploration','every reader answer compared with a plain newest-to-oldest scan model over all short logs x all option combinations, plus all single-point corruptions (must fail closed); parallel readers under the race detector','runtime monitoring: executable scan model over exhaustively enumerated logs; Go race detector pass'),
'C05':('exploration','SignatureVerifier.Verify called directly on rules loaded through the real policy code; oracle = maximum bipartite matching between principals and keys known (from the scenario) to have signed this content','runtime monitoring: matching-bound oracle over enumerated signer sets'),
'C06':('exploration','FindVerifiersForPath compared (as a set) with the documented pre-order walk on enumerated and sampled delegation graphs incl. name reuse/cycles; per-call watchdog','runtime monitoring: reference walk model over enumerated delegation graphs'),
'C07':('exploration','every per-entry flag pattern (authorized/outsider x content x skip placement) up to length 4 (5 thorough) with interleaved policy/attestation/other-ref entries; full and from-entry verification judged by the recovery fold','runtime monitoring: recovery-fold oracle over exhaustively enumerated flag patterns'),
'C08':('exploration','purely differential: every cache configuration (populated at any log length, advanced by earlier verifications, warm/cold process cache, repetition) must give the verdict and tip of the cache-less run; no reference other than the cache ref may change; parallel verification under the race detector','runtime monitoring: differential oracle across cache configurations; Go race detector pass'),
'C09':('exploration','raw attestation trees (statement x storage path x signer set x app state) verified through VerifyRefFull; soundness for every placement, acceptance for canonical placements','runtime monitoring: authorization-count oracle over hostile attestation placements'),
'C11':('exploration','P and P+G built for the same events: monotonicity (model-free), direct enforcement of matching threshold / block-force-push rules (full and latest-only, with revocations), and liveness when every rule is met','runtime monitoring: metamorphic (with/without global rules) + direct oracles over generated histories'),
'C13':('exploration','invariant monitor after every accepted edit, byte-identical metadata after every refused edit, query equality after serialisation round trip and v0.1->v0.2 migration, on random edit sequences in both schemas','runtime monitoring: invariant hooks + metamorphic round-trip relations'),
'C14':('exploration','real parser and writers on generated, mutated and random texts; round trip, idempotence through the canonical text, must-reject list, single-valuedness against an independent line reader','runtime monitoring: metamorphic round-trip/idempotence oracles over generated and mutated inputs'),
'C16':('fault_enumeration','every storage-call index of every (operation, start state) pair, fault and abandon, on the in-memory Storer; consistency of log and managed refs, retry equivalence, verdict-before-or-after on crash','fault injection at the gitstore.Storer boundary with complete enumeration of call indices'),
'C17':('exploration','all schedules with <= P pre-emptions at Storer-call granularity (deterministic scheduler), truly concurrent writers on real git (also under -race); chain walker, exactly-once accounting, porcupine over recorded histories','systematic schedule enumeration + porcupine linearizability checking of recorded append histories + Go race detector'),
'C20':('exploration','exhaustive closure of values reachable from the sandbox globals (walked from Go through the build-tagged LState hook) against a forbidden-function set; ~1300 escape scripts with library-table snapshots; non-termination scripts with wall-clock margins; hook selection per signer on real git','runtime monitoring: reachability invariant on live interpreter state, snapshot comparison, bounded-time termination oracle'),
}
notyet={}
for p in props:
    if p['id'] not in C:
        notyet[p['id']]="real-git check not built yet in this session (see DESIGN.md status table); not claimed until it is silent on the unchanged tree"
hooks=["f91f59d"]
m={"version":1,"setup_cmd":"./setup.sh",
 "hooks":{"guard":"verif (Go build tag)","enable":"go build -tags verif -overlay /verif/build/overlay.json (harness mounted at internal/verifharness by overlay; files of /repo are never replaced)","baseline_off_cmd":"/verif/baseline_off.sh","source_commits":hooks,"add_only":True},
 "engines":[{"name":"verifcheck","path":"/verif/harness","serves_properties":sorted(C),"kind_free_text":"Go harness compiled inside gittuf's module via -overlay: generators, in-memory gitstore.Storer, real-git backend, reference-model / metamorphic / invariant oracles, Storer wrappers (tracer, fault+abandon injector, deterministic scheduler)"},
            {"name":"lincheck","path":"/verif/tools/lincheck","serves_properties":["C17"],"kind_free_text":"porcupine v1.3.0 checker over recorded append histories (own Go module)"}],
 "checks":[],"not_applicable":[{"property_id":k,"reason":v} for k,v in sorted(notyet.items())],
 "notes":"run.sh <Cxx> <tier> rebuilds the harness from /repo's working tree on every invocation (-tags verif). Exit 0 held / 1 VIOLATION (replay file printed) / 2 machinery error (never reported as a violation). known_findings.json lists recorded genuine defects (KNOWN-FINDING lines) and the fix: commits made."}
for k in sorted(C):
    lvl,text,tech=C[k]
    m["checks"].append({"property_id":k,"quick_cmd":"./run.sh %s quick"%k,"thorough_cmd":"./run.sh %s thorough"%k,"evidence_file":"/verif/evidence/%s.json"%k,
      "replay_cmd_template":"./run.sh %s quick --replay {path}"%k,"engine":"verifcheck",
      "level_claimed":{"category":lvl,"text":text,"design_ref":"DESIGN.md §6 %s"%k},
      "level_note":"held on the executions explored only; trusts the harness back ends (in-memory Storer cross-checked against real git on samples and on every violation) and the small reference models described in DESIGN.md §2.5",
      "technique":tech})
json.dump(m,open('/verif/MANIFEST.json','w'),indent=1)
print(len(m['checks']),'checks;',len(m['not_applicable']),'not applicable')
