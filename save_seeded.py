#!/usr/bin/env python3
"""save_seeded.py <mutdir> <seeded-id> <property> <base_commit> <detected_by> <ran> <breaks> <needs>
copies patch.diff, notes.md and the demonstration into /verif/seeded/<id>/ and writes meta.json"""
import sys, os, shutil, glob, json
mut, sid, prop, base, det, ran, breaks, needs = sys.argv[1:9]
here = os.path.dirname(os.path.abspath(__file__))
d = os.path.join(here, "seeded", sid)
os.makedirs(d, exist_ok=True)
demos = []
for f in ["patch.diff", "notes.md"] + [os.path.basename(x) for x in glob.glob(mut + "/*_test.go")]:
    shutil.copy(os.path.join(mut, f), d)
    if f.endswith("_test.go"):
        demos.append(f)
json.dump({"property": prop, "breaks": breaks, "needs_to_manifest": needs, "demo": ", ".join(demos),
           "confirmed": "confirm.sh in a scratch worktree at the base commit: go build ./... ok; existing tests of the touched package pass with the change; demo fails with the change and passes without",
           "detected_by": det, "ran": ran,
           "base_commit": base + " (applies to the current tree with git apply --3way)"}, open(os.path.join(d, "meta.json"), "w"), indent=1)
print("saved", d)
